"""C13 -- Factory: every job meets exactly one fate, never runs twice (ownership clauses)."""
import re
from .model import *
from .facts import Site, op_place, Call, proj_field_name
from .linear import analyse, LinearReport, owned_locals
from .fields import fields

EXPLANATION = ("decides necessary structural conditions only: ownership of a job inside every function of the factory -- Job / WorkerMessage / "
               "FactoryMessage cannot be copied; every owned Job value (K11 linear-resource analysis over all factory bodies) is, on every path, moved into "
               "exactly one listed fate (route / enqueue / queue push / dispatch to the worker / reject / returned carrier) or dropped in place only after the "
               "discard idiom (stats + discard handler); a discarded job is never also dispatched or queued; the discard reason at each site matches its "
               "branch (expired->TtlExpired, limits->Loadshed, limiter->RateLimited, draining/stop->Shutdown); a replaced worker keeps its queue, drops only "
               "the in-flight bookkeeping and always re-drives the queue head; a failed hand-over puts the job back at the queue front; a stale completion "
               "does not advance the queue; a draining worker is retired only when it is not working; sibling bodies (five routers, two supervision arms) "
               "agree. NOT decided: conservation over histories (in-flight jobs across worker deaths, stale Finished messages, resize interleavings).")
TRUSTED = ["rustc move semantics (a moved value cannot be used again)", "C01 for the factory actor itself (one handler at a time)"]
ASSUMPTIONS = ["the retry wrapper in factory/job.rs (RetriableMessage) re-submits jobs by design and is outside the analysed set"]

DOC = {
 "C13.R1": "Job, WorkerMessage and FactoryMessage have no Clone/Copy impl",
 "C13.R2": "K11: every owned Job local in factoryimpl / worker / routing / ratelim / queues / factory_ref reaches exactly one listed sink on every path or is dropped only after the discard idiom",
 "C13.R3": "after discard(_, &mut job) no path moves that job into a dispatch / enqueue / queue sink; after accept() no path reaches reject() for the same local",
 "C13.R4": "discard reason table: the constant passed to DiscardHandler::discard at each site matches the branch it lies on",
 "C13.R5": "replace_worker: takes only the in-flight map, does not touch the queue except through get_next_non_expired_job, and always (every path) tries to dispatch the queue head; dispatch_job's SendErr arm pushes the returned job to the front",
 "C13.R6": "siblings agree: the five route_message bodies (choose -> enqueue | Backlog(job)); the two supervision arms of the factory; the limiter wrapper returns RateLimited(job) without consulting the inner router",
 "C13.R7": "worker_complete dispatches the next job only when the completion matched an in-flight key; worker_finished_job retires a draining worker only if it is not working, otherwise keeps it; routes more work only to non-draining workers",
 "C13.R9": "Factory::post_stop hands every waiting job to the discard handler with reason Shutdown: the factory queue (Queue::pop_front cycle) and each worker's private queue (taken through a WorkerProperties helper or directly)",
 "C13.R11": "= C15.R6: dispatch while draining discards with Shutdown and rejects; a pool grown back over a retiring worker clears its retiring mark unconditionally (a slot inside the pool never loses its worker while jobs are still routed to it)",
 "C13.R10": "= C15.R7: pool and actor->wid index are updated together (a worker the index does not know is never replaced, its queued jobs are stranded)",
 "C13.R8": "= C15.R5: Drained only when all of pool.values() (unfiltered) are available and the queue is empty; the factory stops itself only on is_drained()",
}

JOB = r"^ractor::factory::job::Job<"
SCOPE = r"^(<)?ractor::factory::(factoryimpl|worker|routing|ratelim|queues|factory_ref)::|^<ractor::factory::(factoryimpl|worker|routing|ratelim|queues)::"
SINKS = (r"routing::Router::route_message$|Router<TKey, TMsg>>::route_message$|::enqueue_job$|::maybe_enqueue$|::dispatch_job$|FactoryState::<[^>]*>::dispatch$|"
         r"queues::Queue::push_back$|Queue<TKey, TMsg>>::push_back$|VecDeque::<T, A>::push_back$|VecDeque::<T, A>::push_front$|job::Job::<TKey, TMsg>::reject$|"
         r"worker::Worker::handle$|factory_ref::.*::dispatch_job$")
DISCARD = r"discard::DiscardHandler::discard$|DiscardHandler<TKey, TMsg>>::discard$"
STATS = r"::job_discarded$|::job_ttl_expired$|::job_rate_limited$"
CARRIERS = r"Option$|RouteResult$|FactoryMessage$|WorkerMessage$|Result$|MessagingErr$"


def in_scope(f):
    return re.search(SCOPE, f.id) is not None


def ref_chain(fn, op):
    """locals visited following a (re)borrow chain backwards from an operand"""
    seen = []
    p = op_place(op)
    cur = p[0] if p else None
    for _ in range(8):
        if cur is None or cur in seen:
            break
        seen.append(cur)
        ds = [d for d in fn.defs().get(cur, []) if d[1] == "assign"]
        if len(ds) != 1:
            break
        rv = ds[0][2]["rv"]
        if rv["k"] == "ref":
            cur = rv["p"][0]
        elif rv["k"] == "use" and op_place(rv["op"]) and not op_place(rv["op"])[1]:
            cur = op_place(rv["op"])[0]
        else:
            break
    return seen


def discard_calls_on(fn, local):
    out = []
    for c in fn.calls():
        if re.search(DISCARD, c.callee or "") and len(c.args) >= 3:
            if local in ref_chain(fn, c.args[2]):
                out.append(c)
    return out


def release_pred(fn, local, drop_site):
    for c in discard_calls_on(fn, local):
        # handler may be absent: evaluate dominance with the handler-absent edge removed = the call must lie on every path that has a handler;
        # accept when the discard call or a stats call of the discard family dominates the drop
        if fn.dominates(c.site, drop_site):
            return True, "discard(&mut job) dominates the drop"
    for c in fn.calls():
        if re.search(STATS, c.callee or "") and fn.dominates(c.site, drop_site):
            # the stats call must come after the value exists
            return True, "%s dominates the drop" % c.name.split("::")[-1]
    # optional handler: `if let Some(h) = &handler { h.discard(.., &mut job) }` -- the drop is then dominated by the handler switch
    dc = discard_calls_on(fn, local)
    if dc:
        for c in dc:
            # remove the None edge of the option switch that guards the call and re-test dominance
            for site, t in fn.switches():
                info = fn.switch_info(site)
                if info.get("kind") == "enum" and "Some" in info["edges"] and fn.edge_dominates((site.bb, info["edges"]["Some"]), c.site):
                    none_edges = [(site.bb, b) for nm, b in info["edges"].items() if nm != "Some"]
                    if drop_site not in fn.reach(fn.entry(), no_sites=[c.site], no_edges=none_edges):
                        return True, "discard(&mut job) on the handler-present path dominates the drop"
    return False, "no discard handler call / discard statistic precedes the drop"


def r1(run, db):
    for a in ("ractor::factory::job::Job", "ractor::factory::worker::WorkerMessage", "ractor::factory::FactoryMessage"):
        run.check(db.adt(a) is not None, "adt:" + a, "%s found" % a, "%s not found" % a)
        for tr in ("std::clone::Clone", "core::clone::Clone", "std::marker::Copy"):
            run.check(not db.has_impl(a, tr), "no-%s:%s" % (tr.split("::")[-1], a), "%s has no %s impl" % (a, tr.split("::")[-1]), "%s implements %s: a job could be duplicated and run twice" % (a, tr))


def r2(run, db):
    rep = LinearReport()
    bodies = 0
    for f in db.crate_fns("ractor"):
        if not in_scope(f) or not owned_locals(f, JOB):
            continue
        if re.search(r"worker::Worker::handle(::\{closure#0\})?$", f.id):
            continue     # default trait method: user-overridable no-op body
        bodies += 1
        run.saw(len(f.blocks), f)
        analyse(db, f, JOB, SINKS, release_pred, container_ok=lambda rv: re.search(CARRIERS, rv.get("adt") or "") is not None, rep=rep)
    # in-place removal from a job queue through retain/retain_mut: a `false` return must be on the expired edge, after the discard idiom
    nret = 0
    for f in db.crate_fns("ractor"):
        if not in_scope(f):
            continue
        for c in f.calls():
            if c.matches(r"VecDeque::<T, A>::retain(_mut)?$|Vec::<T, A>::retain(_mut)?$") and "Job<" in " ".join(c.gargs):
                for r in f.origins(c.args[1]):
                    if r["k"] == "agg" and r["stmt"]["rv"].get("kind") == "closure":
                        cl = db.fns.get(r["stmt"]["rv"]["def"])
                        if cl is None:
                            continue
                        nret += 1
                        exp = [x for x in cl.calls() if x.matches(r"::is_expired$")]
                        for site, s_ in cl.stmts():
                            if s_["k"] == "assign" and s_["lhs"] == [0, []] and s_["rv"]["k"] == "use" and s_["rv"]["op"].get("val") == "false":
                                good = any(true_edge(cl, x) and cl.edge_dominates(true_edge(cl, x), site) for x in exp)
                                dcs = [x for x in cl.calls() if re.search(DISCARD, x.callee or "")]
                                good = good and bool(dcs) and all(cl.reaches_after(x.site, site) for x in dcs)
                                run.check(good, "retain-removal:%s" % cl.id.split("::")[3][:30], "a job removed in place by retain in %s is expired and was offered to the discard handler first" % cl.id.split("::")[3][:40],
                                          "retain closure %s removes a job that is not (shown) expired/discarded" % cl.id, cl.where(s_.get("l")))
    run.anchor("retain closures over job queues", nret, 2)
    for key, detail, where in rep.bad:
        run.fail(key, detail, where)
    sinks = [m for m in rep.moves if m[3] == "sink"]
    conts = [m for m in rep.moves if m[3] == "container"]
    run.anchor("factory bodies owning a Job", bodies, 20)
    run.anchor("Job moves into listed fates", len(sinks), 25)
    run.anchor("Job in-place drops after the discard idiom", len([d for d in rep.drops if d[3]]), 4)
    run.check(not rep.bad, "all-jobs-accounted", "%d owned Job locals in %d bodies: %d moves into listed fates, %d into carriers (Option/RouteResult/message enums), %d in-place drops all after the discard idiom" % (
        rep.locals, bodies, len(sinks), len(conts), len(rep.drops)), "see individual findings")
    for fn, site, l, kind, tgt in sinks[:6]:
        run.ok("fate:%s->%s" % (fn.id.split("::")[-1], tgt.split("::")[-1]), "job local _%d of %s is moved into %s" % (l, fn.id, tgt), fn.where(fn.term(site.bb).get("l")))


def r3(run, db):
    n = 0
    for f in db.crate_fns("ractor"):
        if not in_scope(f):
            continue
        for l in owned_locals(f, JOB):
            dcs = discard_calls_on(f, l)
            for c in dcs:
                n += 1
                after = f.after(c.site)
                bad = []
                for site, kind, payload, o in f.uses(l):
                    if site in after and o is not None and o.get("k") == "move" and kind.startswith("arg"):
                        cc = Call(f, site.bb, payload)
                        if not cc.matches(r"job::Job::<TKey, TMsg>::reject$"):
                            bad.append(cc.name)
                    if site in after and o is not None and o.get("k") == "move" and kind == "stmt" and payload["rv"]["k"] == "agg":
                        bad.append("carrier " + str(payload["rv"].get("adt")))
                run.check(not bad, "discarded-not-reused:%s:_%s" % (f.id.split("::")[-1], f.local_name(l) or l), "after discard(&mut %s) in %s the job is only rejected or dropped" % (f.local_name(l), f.id.split("::")[-1]),
                          "a discarded job is afterwards moved into %s (handled and also discarded)" % bad, c.where())
            # accept then reject
            acc = [c for c in f.calls() if c.matches(r"job::Job::<TKey, TMsg>::accept$") and l in ref_chain(f, c.args[0])]
            rej = [c for c in f.calls() if c.matches(r"job::Job::<TKey, TMsg>::reject$") and op_place(c.args[0])]
            for a in acc:
                for r_ in rej:
                    # does the rejected value originate from l?
                    src = op_place(r_.args[0])[0]
                    chain = {src}
                    for d in f.defs().get(src, []):
                        if d[1] == "assign" and d[2]["rv"]["k"] == "use" and op_place(d[2]["rv"]["op"]):
                            chain.add(op_place(d[2]["rv"]["op"])[0])
                    if l in chain:
                        run.check(not f.reaches_after(a.site, r_.site), "accept-then-reject:%s" % f.id.split("::")[-1], "no path accepts and later rejects the same job", "a job is accepted and then rejected", r_.where())
    run.anchor("discard call sites", n, 8)


STAT_REASON = {"job_ttl_expired": "TtlExpired", "job_discarded": "Loadshed", "job_rate_limited": "RateLimited"}


def r4(run, db):
    n = 0
    for f in db.crate_fns("ractor"):
        if not in_scope(f):
            continue
        for c in f.calls():
            if not re.search(DISCARD, c.callee or "") or len(c.args) < 3:
                continue
            n += 1
            rs = f.value_consts(c.args[1])
            reason = rs[0].split("::")[-1] if rs else None
            # the statistic recorded for the same job on this path
            stats = [x for x in f.calls() if re.search(STATS, x.callee or "") and f.dominates(x.site, c.site)]
            # nearest dominating one
            stats = sorted(stats, key=lambda x: len(f.reach(Site(x.target, 0))) if x.target is not None else 0)
            key = "reason:%s:%s" % (re.sub(r"::\{closure#\d+\}", "", f.id).split("::")[-1], reason)
            exp = [x for x in f.calls() if x.matches(r"::is_expired$")]
            on_expired = any(true_edge(f, x) and f.edge_dominates(true_edge(f, x), c.site) for x in exp)
            dom_stat = STAT_REASON.get(stats[0].callee.split("::")[-1]) if stats else None
            shut = bool(re.search(r"post_stop", f.id))
            for t_ in enum_const_tests(f, "DrainState"):
                # "not NotDraining" in either spelling (`== NotDraining` false, `!= NotDraining` true)
                if t_["variant"] == "NotDraining" and t_["ne_edge"] and f.edge_dominates(t_["ne_edge"], c.site):
                    shut = True
            ctx = set()
            if on_expired or dom_stat == "TtlExpired":
                ctx.add("TtlExpired")
            if dom_stat in ("Loadshed", "RateLimited"):
                ctx.add(dom_stat)
            if shut and not dom_stat and not on_expired:
                ctx.add("Shutdown")
            run.check(reason in ctx and len(ctx) == 1, key, "%s: discard reason %s matches its branch (%s)" % (f.id.split("::")[-1], reason, "is_expired() edge" if on_expired else ("statistic " + str(dom_stat) if dom_stat else "draining/stop")),
                      "%s reports %s to the discard handler on a branch classified %s" % (f.id, reason, sorted(ctx)), c.where())
    run.anchor("discard sites", n, 8)


def r5(run, db):
    rw = run.need(db.one(r"WorkerProperties::<TKey, TMsg>::replace_worker$"), "replace_worker")
    run.saw(len(rw.blocks), rw)
    gn = [c for c in rw.calls() if c.callee and c.callee.endswith("::get_next_non_expired_job")]
    dj = [c for c in rw.calls() if c.callee and c.callee.endswith("::dispatch_job")]
    run.check(len(gn) == 1 and len(dj) == 1, "replace|shape", "replace_worker pops the next job once and dispatches it", "replace_worker: %d pops, %d dispatches" % (len(gn), len(dj)), rw.where())
    if gn and dj:
        run.check(rw.must_pass(rw.entry(), [gn[0].site]), "replace|always-redrives", "every path through replace_worker looks at the queue head (the replacement always gets the next queued job)",
                  "replace_worker can return without re-driving the queue (e.g. when nothing was in flight): a job queued for the dead worker is stranded", gn[0].where())
        se = nested_variant_edge(rw, gn[0], ["Some"])
        run.check(se is not None and all_paths_from_edge_pass(rw, se, [dj[0].site]), "replace|head-dispatched", "a queued job found is always dispatched to the replacement", None, dj[0].where())
    # field writes: only curr_jobs (mem::take), heartbeat, actor, handle
    touched = set()
    for site, s in rw.stmts():
        if s["k"] == "assign":
            for p in ([s["lhs"]] + ([s["rv"]["p"]] if s["rv"]["k"] == "ref" and s["rv"].get("mut") else [])):
                if p[0] == 1:
                    nm = [proj_field_name(e) for e in p[1] if e.startswith("f:")]
                    if nm:
                        touched.add(nm[0])
    F = fields(db)
    run.check(F.wp_queue not in touched and F.wp_pending not in touched, "replace|queue-untouched", "replace_worker mutably touches only %s (not the queue, not the pending-key table)" % sorted(touched),
              "replace_worker mutates %s directly" % sorted(touched & {F.wp_queue, F.wp_pending}), rw.where())
    tk = [c for c in rw.calls() if c.matches(r"mem::take$")]
    run.check(len(tk) == 1 and any(proj_field_name(e) == F.wp_inflight for r in rw.origins(tk[0].args[0]) for e in r.get("proj", []) + r.get("trail", []) if e.startswith("f:")), "replace|takes-inflight-only", "only the in-flight map is taken", "replace_worker takes something other than curr_jobs", rw.where())
    dj_f = run.need(db.one(r"WorkerProperties::<TKey, TMsg>::dispatch_job$"), "dispatch_job")
    run.saw(len(dj_f.blocks), dj_f)
    cast = [c for c in dj_f.calls() if c.matches(r"::cast$")]
    pf = [c for c in dj_f.calls() if c.matches(r"VecDeque::<T, A>::push_front$")]
    pb = [c for c in dj_f.calls() if c.matches(r"VecDeque::<T, A>::push_back$")]
    ins = [c for c in dj_f.calls() if c.matches(r"HashMap::<K, V, S, A>::insert$")]
    run.check(len(cast) == 1 and len(pf) == 1 and not pb and len(ins) == 1, "dispatch_job|shape", "dispatch_job: one cast, bounce to the FRONT, one in-flight insert", "dispatch_job: %d casts, %d push_front, %d push_back, %d inserts" % (len(cast), len(pf), len(pb), len(ins)), dj_f.where())
    if cast and pf and ins:
        ok_e = nested_variant_edge(dj_f, cast[0], ["Ok"])
        er_e = nested_variant_edge(dj_f, cast[0], ["Err"])
        run.check(ok_e and dj_f.edge_dominates(ok_e, ins[0].site), "dispatch_job|inflight-on-ok", "the key is recorded in flight only when the hand-over succeeded", None, ins[0].where())
        run.check(er_e and dj_f.edge_dominates(er_e, pf[0].site), "dispatch_job|bounce-on-err", "a failed hand-over returns the job to the queue head", None, pf[0].where())
        okj = any(r["k"] == "call" and r["call"].bb == cast[0].bb and any("SendErr" in e for e in r["proj"]) for r in dj_f.origins(pf[0].args[1]))
        run.check(okj, "dispatch_job|bounced-is-returned-job", "the job pushed back is the one returned inside SendErr(Dispatch(job))", "the bounced value is not the returned job", pf[0].where())


def route_skeleton(db, f):
    ch = [c for c in f.calls() if c.callee and c.callee.endswith("::choose_target_worker")]
    en = [c for c in f.calls() if c.callee and c.callee.endswith("::enqueue_job")]
    ags = sorted(s["rv"]["variant"] for _, s in f.aggregates(adt="RouteResult"))
    order = bool(ch and en and f.dominates(ch[0].site, en[0].site))
    return (len(ch), len(en), tuple(ags), order)


def r6(run, db):
    routers = [f for f in db.crate_fns("ractor") if f.kind == "method" and f.raw.get("trait_item", "").endswith("routing::Router::route_message") and (f.raw.get("impl_self") or "").startswith("ractor::factory::routing::")]
    run.anchor("route_message bodies", len(routers), 5)
    sk = {f.id: route_skeleton(db, f) for f in routers}
    vals = set(sk.values())
    run.check(len(vals) == 1 and list(vals)[0] == (1, 1, ("Backlog", "Handled"), True), "routers-agree", "all %d routers: choose_target_worker -> enqueue_job -> Handled | Backlog(job)" % len(routers), "router bodies diverge: %s" % sk)
    for f in routers:
        # Backlog carries the job parameter
        for site, s in f.aggregates(adt="RouteResult", variant="Backlog"):
            okp = all(r["k"] == "arg" and r["local"] == 2 for r in f.origins(s["rv"]["ops"][0]))
            run.check(okp, "backlog-returns-job:%s" % f.id.split("::")[3][:24], "Backlog returns the unrouted job itself", "Backlog does not return the job parameter", f.where(s.get("l")))
    rl = [f for f in db.crate_fns("ractor") if f.kind == "method" and f.raw.get("trait_item", "").endswith("routing::Router::route_message") and "ratelim::" in f.id]
    run.anchor("rate-limited router", len(rl), 1)
    for f in rl:
        chk = [c for c in f.calls() if c.matches(r"::check$")]
        inner = [c for c in f.calls() if c.matches(r"Router::route_message$")]
        rlg = f.aggregates(adt="RouteResult", variant="RateLimited")
        good = len(chk) == 1 and len(inner) == 1 and len(rlg) == 1
        run.check(good, "limiter|shape", "limiter: check(), inner route, RateLimited(job)", "limiter shape changed", f.where())
        if good:
            te, fe = true_edge(f, chk[0]), false_edge(f, chk[0])
            run.check(te and f.edge_dominates(te, inner[0].site), "limiter|route-if-allowed", "the inner router runs only on the true edge of check()", "inner router consulted although the limiter refused", inner[0].where())
            run.check(fe and f.edge_dominates(fe, rlg[0][0]) and all(r["k"] == "arg" and r["local"] == 2 for r in f.origins(rlg[0][1]["rv"]["ops"][0])), "limiter|refuse-returns-job", "a refusal returns RateLimited(job) with the job itself", None, f.where())
    # supervision arms of the factory
    hs = [f for f in db.crate_fns("ractor") if re.search(r"factoryimpl::Factory<.*Actor>::handle_supervisor_evt::\{closure#0\}$", f.id)]
    run.anchor("factory handle_supervisor_evt", len(hs), 1)
    for f in hs:
        def arm(edge):
            reach = edge_path_sites(f, [edge])
            names = []
            for c in sorted(f.calls(), key=lambda c: (c.line or 0)):
                if c.site in reach and re.search(r"::(replace_worker|try_route_next_active_job|send_factory_ping|on_worker_availability_change|build|spawn_linked)$|HashMap::<K, V, S, A>::(insert|remove)$", c.callee or ""):
                    names.append(c.callee.split("::")[-1])
            return names
        sw = [s for s in f.switches() if f.switch_info(s[0]).get("disc_adt", "").endswith("SupervisionEvent")]
        if not sw:
            run.fail("factory-sup|switch", "no switch on SupervisionEvent", f.where())
            continue
        info = f.switch_info(sw[0][0])
        a = arm((sw[0][0].bb, info["edges"]["ActorTerminated"]))
        b = arm((sw[0][0].bb, info["edges"]["ActorFailed"]))
        # the arms share the tail after the match; compare the multiset up to the join
        run.check(a == b and "replace_worker" in a and "try_route_next_active_job" in a, "factory-sup|arms-agree", "terminated and failed arms perform the same steps: %s" % a, "supervision arms diverge: terminated=%s failed=%s" % (a, b), f.where())


def r7(run, db):
    wc = run.need(db.one(r"WorkerProperties::<TKey, TMsg>::worker_complete$"), "worker_complete")
    rm = [c for c in wc.calls() if c.matches(r"HashMap::<K, V, S, A>::remove$")]
    gn = [c for c in wc.calls() if c.callee and c.callee.endswith("::get_next_non_expired_job")]
    run.check(len(rm) == 1 and len(gn) == 1, "complete|shape", "worker_complete removes the key and may pop the next job", None, wc.where())
    if rm and gn:
        iss = [c for c in wc.calls() if c.matches(r"Option::<T>::is_some$") and any(r["k"] == "call" and r["call"].bb == rm[0].bb for r in wc.origins(c.args[0]))]
        good = any(true_edge(wc, c) and wc.edge_dominates(true_edge(wc, c), gn[0].site) for c in iss) or (nested_variant_edge(wc, rm[0], ["Some"]) and wc.edge_dominates(nested_variant_edge(wc, rm[0], ["Some"]), gn[0].site))
        run.check(bool(good), "complete|advance-only-on-match", "the queue advances only when the completed key was in flight (a stale Finished is ignored)", "a stale completion advances the worker queue (two jobs in flight on one worker)", gn[0].where())
    wf = run.need(db.one(r"FactoryState::<.*>::worker_finished_job$"), "worker_finished_job")
    run.saw(len(wf.blocks), wf)
    iw = [c for c in wf.calls() if c.callee and c.callee.endswith("::is_working")]
    stops = [c for c in wf.calls() if c.matches(r"ActorCell::stop$")]
    rmv = [c for c in wf.calls() if c.matches(r"HashMap::<K, V, S, A>::remove$")]
    route = [c for c in wf.calls() if c.callee and c.callee.endswith("::try_route_next_active_job")]
    run.check(len(iw) == 1 and len(stops) == 1 and len(route) == 1, "finished|shape", "worker_finished_job: is_working test, one retire path, one routing path", "worker_finished_job: %d is_working, %d stops, %d routes" % (len(iw), len(stops), len(route)), wf.where())
    if iw and stops:
        # should_drop = !is_working(), read after worker_complete
        wcall = [c for c in wf.calls() if c.callee == wc.id]
        run.check(bool(wcall) and wf.reaches_after(wcall[0].site, iw[0].site), "finished|working-read-after-complete", "is_working() is read after worker_complete() popped/dispatched the next job", None, wf.where())
        # the stop is guarded by a bool originating from Not(is_working())
        guards = []
        for site, t in wf.switches():
            if t["dty"] == "bool" and wf.edge_of(site, "true") and wf.edge_dominates(wf.edge_of(site, "true"), stops[0].site):
                roots = wf.origins(t["discr"])
                guards.append(roots)
        from .bits import sym
        okg = False
        for site, t in wf.switches():
            if t["dty"] != "bool":
                continue
            te = wf.edge_of(site, "true")
            if not (te and wf.edge_dominates(te, stops[0].site)):
                continue
            # trace tuple field: (is_draining, should_drop)
            for r in wf.origins(t["discr"]):
                if r["k"] == "un" and r["op"] == "Not":
                    inner = wf.origins(r["a"])
                    if any(x["k"] == "call" and x["call"].bb == iw[0].bb for x in inner):
                        okg = True
        # ... or the decision is taken on the is_working() == false edge (and recorded, e.g. as an enum value matched later)
        fe_ = false_edge(wf, iw[0])
        if not okg and fe_ and wf.edge_dominates(fe_, stops[0].site):
            okg = True
        run.check(okg, "finished|retire-only-if-not-working", "a draining worker is stopped only when `!worker.is_working()` (nothing in flight, nothing queued)",
                  "the retire decision is not `!is_working()`: a draining worker can be stopped while a just-dispatched job is in flight (the job is lost)", stops[0].where())
    if route:
        dr = []
        for site, t in wf.switches():
            if t["dty"] == "bool":
                roots = wf.origins(t["discr"])
                if any(any(proj_field_name(e) == fields(db).wp_draining for e in r.get("proj", []) + r.get("trail", []) if e.startswith("f:")) for r in roots) or any(r["k"] == "const" for r in roots):
                    fe = wf.edge_of(site, "false")
                    if fe and wf.edge_dominates(fe, route[0].site):
                        dr.append(site)
        if not dr:
            # the decision recorded in a value: every path to the routing call took the not-draining edge of a test on the
            # worker's draining flag, or the worker-unknown edge (no such pool entry)
            cand = []
            for site, t in wf.switches():
                if t["dty"] == "bool":
                    roots = wf.origins(t["discr"])
                    neg = any(r["k"] == "un" and r.get("op") == "Not" for r in roots)
                    rr = roots + [x for r in roots if r["k"] == "un" for x in wf.origins(r["a"])]
                    if any(any(proj_field_name(e) == fields(db).wp_draining for e in r.get("proj", []) + r.get("trail", []) if e.startswith("f:")) for r in rr):
                        e_ = wf.edge_of(site, "true" if neg else "false")
                        if e_:
                            cand.append(e_)
                else:
                    info = wf.switch_info(site)
                    if info.get("kind") == "enum" and "None" in info["edges"] and "disc_place" in info and any(r["k"] == "call" and r["call"].matches(r"HashMap::<K, V, S, A>::get(_mut)?$") for r in wf.origins(info["disc_place"])):
                        cand.append((site.bb, info["edges"]["None"]))
            if cand and wf.edges_dominate(cand, route[0].site):
                dr = cand
        run.check(bool(dr), "finished|route-only-if-not-draining", "more work is routed to the finishing worker only on the not-draining edge", "a draining worker is given more work", route[0].where())


Q = ["dflt"]
TH = ["dflt", "rc", "atr", "astd"]
def r9(run, db):
    """shutdown disposes of every waiting job, wherever it waits.  Accepted jobs wait in the factory's queue (factory-queued
    routers) or in a worker's private queue (every other router, and sticky hand-overs).  Factory::post_stop hands the
    factory queue to the discard handler with reason Shutdown; the worker queues are owned by the same state and would
    otherwise be dropped with it -- accepted jobs that are neither handled, nor discarded, nor returned."""
    WQ = fields(db).wp_queue
    ps = [f for f in db.crate_fns("ractor") if re.search(r"factoryimpl::Factory<.*Actor>::post_stop::\{closure#0\}$", f.id)]
    run.anchor("Factory::post_stop", len(ps), 1)
    if not ps:
        return
    f = ps[0]
    run.saw(len(f.blocks), f)
    def fq_names(fn, op):
        out = []
        for r in fn.origins(op, through=lambda c: 0 if c.matches(r"Deref>::deref$|DerefMut>::deref_mut$|Deref::deref$|DerefMut::deref_mut$") else None):
            for e in r.get("proj", []) + r.get("trail", []):
                n = proj_field_name(e) if e.startswith("f:") else None
                if n:
                    out.append(n)
        return out
    # helpers of WorkerProperties that empty the private queue and hand the jobs out
    takers = {}
    for g in db.crate_fns("ractor"):
        if "WorkerProperties" not in g.id or "Job<" not in (g.raw.get("output") or ""):
            continue
        for c in g.calls():
            if c.matches(r"mem::take$|mem::replace$|VecDeque::<T, A>::drain$|VecDeque::<T, A>::pop_front$|VecDeque::<T, A>::pop_back$|VecDeque::<T, A>::split_off$") and WQ in fq_names(g, c.args[0]):
                takers[g.id] = g
    disc = [c for c in f.calls() if c.callee and c.callee.endswith("DiscardHandler::discard")]
    run.anchor("post_stop discard sites", len(disc), 1, f.where())
    fam_calls = [c for c in f.calls()]
    src_factory = src_worker = False
    THR = lambda cc: 0 if cc.matches(r"IntoIterator>::into_iter$|IntoIterator::into_iter$|Iterator::next$|Iterator>::next$|DerefMut>::deref_mut$|Deref>::deref$") else None
    for c in disc:
        reason = f.value_consts(c.args[1])
        run.check(reason and reason[0].endswith("DiscardReason::Shutdown"), "post_stop|reason-shutdown", "jobs discarded at stop carry DiscardReason::Shutdown", "post_stop discards with reason %s" % reason, c.where())
        for r in f.origins(c.args[2], through=THR):
            if r["k"] != "call":
                continue
            x = r["call"]
            if x.callee and x.callee.endswith("Queue::pop_front"):
                src_factory = True
            if (x.callee in takers) or (x.resolved in takers):
                src_worker = True
            if x.matches(r"mem::take$|VecDeque::<T, A>::drain$|VecDeque::<T, A>::pop_front$") and WQ in fq_names(f, x.args[0]):
                src_worker = True
    run.check(src_factory, "post_stop|factory-queue-discarded", "every job left in the factory queue is handed to the discard handler (Shutdown)", "post_stop does not discard the factory queue", f.where())
    # ... and unconditionally: whatever the router says about where it queues, a worker's private queue can hold jobs
    # (sticky hand-overs of a factory-queueing router, retained jobs of a dying worker)
    if src_worker:
        some_edges = []
        for site, t in f.switches():
            info = f.switch_info(site)
            if info.get("kind") == "enum" and "Some" in info["edges"] and any("discard_handler" in str(e) or True for e in [1]):
                roots = f.origins(info["disc_place"]) if info.get("disc_place") else []
                names = [proj_field_name(e) for r in roots for e in r.get("proj", []) + r.get("trail", []) if e.startswith("f:")]
                if any(n and "discard" in n for n in names):
                    some_edges.append((site.bb, info["edges"]["Some"]))
        wq_sites = []
        for c in f.calls():
            if (c.callee in takers) or (c.resolved in takers) or (c.matches(r"mem::take$|VecDeque::<T, A>::drain$|VecDeque::<T, A>::pop_front$") and WQ in fq_names(f, c.args[0])):
                # the iterator over the pool that feeds this call
                for r in f.origins(c.args[0], through=lambda cc: 0 if cc.matches(r"Iterator::next$|Iterator>::next$|IntoIterator>::into_iter$|IntoIterator::into_iter$|DerefMut>::deref_mut$|Deref>::deref$") else None):
                    if r["k"] == "call" and r["call"].matches(r"HashMap::<K, V, S, A>::(values_mut|iter_mut|values|iter|drain)$"):
                        wq_sites.append(r["call"].site)
        run.anchor("handler-present edges in post_stop", len(some_edges), 1, f.where())
        good = bool(wq_sites) and all(all_paths_from_edge_pass(f, e, wq_sites) for e in some_edges)
        run.check(good, "post_stop|worker-queues-discarded-unconditionally", "whenever a discard handler is installed, every path through post_stop walks the workers' private queues",
                  "the disposal of the workers' private queues is conditional (e.g. skipped for factory-queueing routers): a sticky router parks jobs in a busy worker's private queue although it reports is_factory_queueing(); those jobs vanish at stop", f.where())
    run.check(src_worker, "post_stop|worker-queues-discarded", "every job left in a worker's private queue is handed to the discard handler (Shutdown)",
              "post_stop discards only the factory's own queue: jobs that were accepted and are waiting in a worker's private queue (field `%s`; every non-factory-queueing router, sticky hand-overs) are dropped with the state -- never handled, never discarded, never returned" % WQ, f.where())


def r10(run, db):
    """= C15.R7: `jobs queued for a worker that dies are given to its replacement` needs the factory to recognise the dead
    actor: every worker entered in the pool is entered in the actor->wid index (and leaves both together)"""
    from . import c15
    c15.r7(run, db)

def r8(run, db):
    """= C15.R5: the factory stops itself only when drained, and drained means every worker still in the pool is idle"""
    from . import c15
    c15.r5(run, db)


def r11(run, db):
    """= C15.R6: a job dispatched while the factory drains is discarded (Shutdown) and rejected, never parked; a pool grown back
    over a retiring worker un-retires it whether or not it is idle -- otherwise it stops itself after its current job, the slot
    stays empty, and every job routed to that slot is parked in the factory queue for good (`none silently disappears while
    workers are healthy`)"""
    from . import c15
    c15.r6(run, db)


RULES = [{"id": "C13.R%d" % i, "fn": f, "quick": Q, "thorough": TH} for i, f in enumerate([r1, r2, r3, r4, r5, r6, r7, r8, r9, r10, r11], 1)]
from .etype import witness_rule
RULES.append({"id": "C13.W", "fn": witness_rule(['W4JobNoClone', 'W6JobMoved']), "quick": [], "thorough": [], "no_db": True})
DOC["C13.W"] = 'E-TYPE witnesses W4 (Job::clone is E0599) and W6 (use of a job after moving it into a dispatch message is E0382)'

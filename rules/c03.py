"""C03 -- Kill > stop > supervision > messages; stop graceful, kill immediate."""
import re
from .model import *
from .facts import Site

EXPLANATION = ("Static decision of the priority property from the shape of the *expanded* select (pre-coroutine-transform MIR, "
               "macro expansion included): the priority listen polls signal, stop, supervision, message in that order with a constant start "
               "index (biased); every user callback future is raced against the signal port only (never the stop port) by a whole-crate "
               "future-flow analysis (K14); the outcome table of the message step maps a signal to the kill path. tokio/futures select "
               "semantics when biased are trusted.")
TRUSTED = ["rustc MIR construction", "tokio::select!/futures::select_biased! poll in written order when biased", "borrow checker"]
ASSUMPTIONS = ["user implementations of the callbacks outside the workspace are arbitrary; the rules constrain where their futures may be polled"]

DOC = {
 "C03.R1": "priority listen: select is biased (constant start index / no shuffle), branch k polls element k, element payloads ordered Signal, StopMessage, SupervisionEvent, user message",
 "C03.R2": "signal race (sink): biased, Signal first, exactly the caller's future second, no stop receiver in the race",
 "C03.R3": "K14: no task root / public future carries an un-raced callback (R tag); all 5 hooks x 2 runtimes reach the sink",
 "C03.R4": "outcome table of process_message: Signal -> signal(); Stop -> stop(reason); sink Err(signal) -> signal(); ok -> ok(); constructors' constants",
 "C03.R6": "stop / kill requests are always attempted: send_stop and send_signal take their port slot on every path, consult no status, deliver their argument; ActorCell::stop/kill always forward",
 "C03.R7": "the message step does not suspend between the completed priority pick and the start of the handler race (no await in between)",
 "C03.R8": "kill_and_wait / stop_and_wait / drain_and_wait issue exactly their own kind of request, on every path",
 "C03.R5": "who-may-touch: stop and supervision receivers only by priority listen and Drop (a supervision event is taken only by the prioritised pick, so none is handled once a stop was picked); signal receiver only by sink, listen and Drop",
}

ORDER = [("Signal", r"messages::Signal>"), ("Stop", r"StopMessage"), ("Supervision", r"SupervisionEvent"), ("Message", r"MuxedMessage")]

def classify(ty):
    for nm, rx in ORDER:
        if re.search(rx, ty):
            return nm
    return "other"


def r1(run, db):
    m = model(db)
    ls = m.listen_fns()
    run.anchor("priority listen", len(ls), 1)
    for f, cor, s in ls:
        run.saw(len(cor.blocks), f)
        key = f.id
        run.check(s["biased"], key + "|biased", "select in %s is biased: poll closure %s has no random start (no thread_rng_n/shuffle)" % (f.id, s["poll_closure"].id),
                  "select in %s is NOT biased: the poll closure draws a random start index" % f.id, f.where())
        if s["kind"] == "tokio":
            sc = s.get("start_const")
            run.check(bool(sc) and sc["roots"] == ["const"] and sc["consts"] and sc["consts"][0].startswith("0"), key + "|start=0",
                      "branch start index is the constant 0 (%s)" % (sc,), "branch start index is not the constant 0: %s" % (sc,), f.where())
        bm = s.get("branch_map") or {}
        n = len(s["elems"])
        run.check(n >= 4 and all(bm.get(k) == k for k in range(n)), key + "|identity-map",
                  "branch k polls select element k for k in 0..%d (map %s)" % (n, bm), "branch map is not the identity: %s" % bm, f.where())
        polled = [classify(s["elems"][bm[k]]["ty"]) if bm.get(k) is not None and bm[k] < n else "?" for k in range(n)]
        run.check(polled == ["Signal", "Stop", "Supervision", "Message"], key + "|order",
                  "polled order by payload type: %s" % polled, "polled order is %s, expected Signal, Stop, Supervision, Message" % polled, f.where())


def r2(run, db):
    m = model(db)
    sk = m.sink()
    cor = db.coroutine_of(sk.id)
    sets = m.select_sets(cor)
    run.anchor("sink select", len(sets), 1)
    for s in sets:
        run.saw(len(cor.blocks), sk)
        key = sk.id
        run.check(s["biased"], key + "|biased", "signal race is biased", "signal race is not biased", sk.where())
        if s["kind"] == "tokio":
            sc = s.get("start_const")
            run.check(bool(sc) and sc["roots"] == ["const"] and sc["consts"] and sc["consts"][0].startswith("0"), key + "|start=0",
                      "start index constant 0", "start index not constant 0: %s" % (sc,), sk.where())
        bm = s.get("branch_map") or {}
        n = len(s["elems"])
        cls = [classify(e["ty"]) for e in s["elems"]]
        run.check(n == 2 and bm.get(0) == 0 and bm.get(1) == 1 and cls[0] == "Signal", key + "|signal-first",
                  "race polls [%s] with the signal receiver first" % ", ".join(cls), "race set is %s map %s" % (cls, bm), sk.where())
        run.check("Stop" not in cls, key + "|no-stop", "stop port is not part of the race (stop never interrupts a running callback)",
                  "the stop receiver is raced against callbacks", sk.where())
        # the second element is the function's own future parameter (upvar of the coroutine = param)
        o = s["elems"][1]["origin"] or []
        run.check(any(r["k"] == "upvar" for r in o) and len(o) == 1, key + "|own-param",
                  "second element originates from the caller-supplied future (coroutine upvar %s)" % [r.get("field") for r in o],
                  "second element does not originate solely from the future parameter: %s" % [r["k"] for r in o], sk.where())
        # result mapping: signal branch -> Err, future branch -> Ok
        errs = cor.aggregates(adt="std::result::Result", variant="Err")
        oks = cor.aggregates(adt="std::result::Result", variant="Ok")
        run.check(len(errs) >= 1 and len(oks) >= 1, key + "|result", "signal arm yields Err(signal), future arm yields Ok(output)", None, sk.where())


def r3(run, db):
    m = model(db)
    ff = m.ff()
    run.saw(len(ff.bodies))
    for f in ff.bodies:
        run.functions.add(f.id)
    v = ff.violations("R")
    for key, detail, where in v:
        run.fail(key, detail, where)
    hooks = ["pre_start", "post_start", "post_stop", "handle", "handle_supervisor_evt"]
    n = 0
    for rt in m.runtimes():
        for h in hooks:
            cs = m.sink_calls_for(rt + "." + h)
            n += len(cs)
            run.check(len(cs) >= 1, "raced:%s.%s" % (rt, h),
                      "callback %s.%s is raced against the signal port at %s" % (rt, h, [c.where() for c in cs]),
                      "no sink call wraps callback %s.%s" % (rt, h))
    run.anchor("sink calls", n, 10)
    run.anchor("seed callback invocations (non-exempt)", len([1 for c, h in ff.seed_calls if c.fn.id not in ff.exempt]), 10)
    run.check(not v, "no-unraced-root", "fixpoint over %d bodies (%d iterations): %d task roots, %d public futures inspected; none carries an un-raced callback" % (
        len(ff.bodies), ff.iterations, len(ff.roots), len([f for f in ff.bodies if f.raw.get("vis") == "Public"])), "see individual root violations")


def _loop_result_aggs(db):
    out = []
    for f in db.crate_fns("ractor"):
        for site, s in f.aggregates(adt="ActorLoopResult"):
            rv = s["rv"]
            vals = {}
            for nm, o in zip(rv["fields"], rv["ops"]):
                cv = f.value_consts(o)
                vals[nm] = cv[0] if len(cv) == 1 else None
            out.append((f, site, vals))
    return out


_LRF_CACHE = {}


def loop_result_fields(db):
    """(exit_field, killed_field) of the step result, by role rather than by name or polarity.  Three combinations of constant
    values are ever built: (go on), (exit, not killed), (exit, killed).  The exit field (and its `exit` value) is the one the
    message loop tests to leave: an edge of a two-way switch on it dominates the loop block's Ok return.  The other field is
    the killed flag; its not-killed value is the one it has in the (go on) combination.
    Returns dict(exit=(field, value), killed=(field, value))."""
    if id(db) in _LRF_CACHE:
        return _LRF_CACHE[id(db)]
    aggs = _loop_result_aggs(db)
    flds = sorted(set(k for _, _, v in aggs for k, x in v.items() if x in ("true", "false")))
    combos = set(tuple(v.get(k) for k in flds) for _, _, v in aggs)
    if len(flds) != 2 or len(combos) != 3 or any(None in c for c in combos):
        raise AnchorLost("step result: two constant flags in three combinations (fields %s, combinations %s)" % (flds, sorted(combos, key=str)))
    m = model(db)
    found = None
    for rt in m.runtimes():
        lb = m.loop_body(rt)
        pb_root = db.root_of(m.proc_body(rt))
        for lp in [ch for ch in db.children(lb.id) if any(x.callee == pb_root.id for x in ch.calls())]:
            rets = ok_return_sites(lp) or [s_ for s_, st in lp.aggregates(adt="std::result::Result", variant="Ok")]
            for site, t in lp.switches():
                if t["dty"] != "bool":
                    continue
                for r in lp.origins(t["discr"], through=THROUGH_TRY):
                    names = [e.split(":")[2] for e in r.get("proj", []) + r.get("trail", []) if e.startswith("f:") and len(e.split(":")) > 2]
                    for fld in flds:
                        if fld in names:
                            for v in ("true", "false"):
                                e = lp.edge_of(site, v)
                                if e and rets and all(lp.edge_dominates(e, x) for x in rets):
                                    found = (fld, v)
    if found is None:
        raise AnchorLost("step result: the flag the message loop tests to leave")
    ef, ev = found
    kf = [f_ for f_ in flds if f_ != ef][0]
    ei, ki = flds.index(ef), flds.index(kf)
    goon = [c for c in combos if c[ei] != ev]
    if len(goon) != 1:
        raise AnchorLost("step result: exactly one `go on` combination")
    out = {"exit": (ef, ev), "killed": (kf, "false" if goon[0][ki] == "true" else "true")}
    _LRF_CACHE[id(db)] = out
    return out


def loop_result_ctors(db):
    """fns building ActorLoopResult with constant flags -> class name by (exits, killed)"""
    pol = loop_result_fields(db)
    (ef, ev), (kf, kv) = pol["exit"], pol["killed"]
    out = {}
    for f, site, vals in _loop_result_aggs(db):
        se = None if vals.get(ef) is None else ("true" if vals.get(ef) == ev else "false")
        wk = None if vals.get(kf) is None else ("true" if vals.get(kf) == kv else "false")
        cls = {("false", "false"): "ok", ("true", "false"): "stop", ("true", "true"): "signal"}.get((se, wk), "other:%s/%s" % (se, wk))
        out.setdefault(f.id, []).append((cls, site))
    return out


def r4(run, db):
    m = model(db)
    ctors = loop_result_ctors(db)
    classes = {}
    for fid, lst in ctors.items():
        for cls, site in lst:
            classes.setdefault(cls, []).append(fid)
    run.check(set(classes) == {"ok", "stop", "signal"}, "ctors", "ActorLoopResult is built only with flag classes %s in %s" % (sorted(classes), sorted(ctors)),
              "unexpected ActorLoopResult flag classes: %s" % classes)
    for rt in m.runtimes():
        pb = m.proc_body(rt)
        run.saw(len(pb.blocks), pb)
        lf = [f for f, cor, s in m.listen_fns()]
        lcalls = [c for c in pb.calls() if c.callee in [f.id for f in lf]]
        run.anchor("listen call in %s" % rt, len(lcalls), 1, pb.where())
        if not lcalls:
            continue
        aw = await_of_call(pb, lcalls[0])
        run.anchor("await of listen in %s" % rt, len(aw), 1)
        if not aw:
            continue
        poll = aw[0].poll
        def ctor_sites(cls):
            out = []
            for c in pb.calls():
                for nm in (c.callee, c.resolved):
                    if nm in ctors and any(k == cls for k, _ in ctors[nm]):
                        out.append(c.site)
            return out
        sig_sites, stop_sites, ok_sites = ctor_sites("signal"), ctor_sites("stop"), ctor_sites("ok")
        hook_sinks = [c.site for h in ("handle", "handle_supervisor_evt") for c in m.sink_calls_for(rt + "." + h) if c.fn.id == pb.id]
        # Signal arm
        e = nested_variant_edge(pb, poll, ["Ready", "Ok", "Signal"])
        run.check(e is not None and all_paths_from_edge_pass(pb, e, sig_sites) and not (edge_path_sites(pb, [e]) & set(hook_sinks)),
                  "%s|Signal->signal()" % rt, "listen Ok(Signal) always yields ActorLoopResult::signal and starts no callback", None, pb.where())
        e = nested_variant_edge(pb, poll, ["Ready", "Ok", "Stop"])
        run.check(e is not None and all_paths_from_edge_pass(pb, e, stop_sites) and not (edge_path_sites(pb, [e]) & set(hook_sinks)),
                  "%s|Stop->stop()" % rt, "listen Ok(Stop) always yields ActorLoopResult::stop(reason) and starts no callback", None, pb.where())
        e = nested_variant_edge(pb, poll, ["Ready", "Err"])
        run.check(e is not None and all_paths_from_edge_pass(pb, e, sig_sites), "%s|Err->signal()" % rt,
                  "listen Err(channel closed / impossible) yields ActorLoopResult::signal", None, pb.where())
        # hook outcomes
        for h in ("handle", "handle_supervisor_evt"):
            for c in m.sink_calls_for(rt + "." + h):
                if c.fn.id != pb.id:
                    continue
                for a in await_of_call(pb, c):
                    e = nested_variant_edge(pb, a.poll, ["Ready", "Err"])
                    run.check(e is not None and all_paths_from_edge_pass(pb, e, sig_sites), "%s|%s|Err(signal)->signal()" % (rt, h),
                              "a kill that interrupts %s yields ActorLoopResult::signal (no post_stop, see C01.R5)" % h, None, c.where())
                    e = nested_variant_edge(pb, a.poll, ["Ready", "Ok", "Ok"])
                    run.check(e is not None and all_paths_from_edge_pass(pb, e, ok_sites), "%s|%s|Ok->ok()" % (rt, h),
                              "%s returning Ok yields ActorLoopResult::ok" % h, None, c.where())
                    e = nested_variant_edge(pb, a.poll, ["Ready", "Ok", "Err"])
                    reach = edge_path_sites(pb, [e]) if e else set()
                    run.check(e is not None and not (reach & set(ok_sites + stop_sites + sig_sites)), "%s|%s|Err->Err" % (rt, h),
                              "%s returning Err propagates as Err (no loop-result constructor on that path)" % h, None, c.where())


def r5(run, db):
    m = model(db)
    sk = m.sink()
    ls = [f for f, c, s in m.listen_fns()]
    allowed_sig = set(x.id for x in db.family(sk.id)) | set(x.id for l in ls for x in db.family(l.id))
    allowed_stop = set(x.id for l in ls for x in db.family(l.id))
    drops = [f.id for f in db.crate_fns("ractor") if f.raw.get("impl_trait", "").endswith("ops::Drop") and "ActorPortSet" in (f.raw.get("impl_self") or "")]
    run.anchor("ActorPortSet::drop", len(drops), 1)
    nsig = nstop = nsup = 0
    for f in db.crate_fns("ractor"):
        for site, s in f.stmts():
            if s["k"] != "assign" or s["rv"]["k"] not in ("ref", "use"):
                continue
            p = s["rv"].get("p") or (s["rv"]["op"].get("p") if s["rv"]["k"] == "use" else None)
            if not p:
                continue
            names = [e.split(":")[2] for e in p[1] if e.startswith("f:") and len(e.split(":")) > 2]
            for nm in names:
                if nm in ("signal_rx", "stop_rx", "supervisor_rx"):
                    # is this a field of the port set?  base local type
                    okset = (allowed_sig if nm == "signal_rx" else allowed_stop) | set(drops)
                    ctor = bool(f.aggregates(adt="ActorPortSet"))
                    if nm == "signal_rx":
                        nsig += 1
                    elif nm == "stop_rx":
                        nstop += 1
                    else:
                        nsup += 1
                    run.check(f.id in okset or ctor, "touch:%s:%s" % (nm, f.id), "%s touched in allowed role %s" % (nm, f.id),
                              "%s is touched by %s, which is neither the priority listen%s nor Drop" % (nm, f.id, ", the sink" if nm == "signal_rx" else ""), f.where(s.get("l")))
    run.anchor("signal_rx touch sites", nsig, 3)
    run.anchor("stop_rx touch sites", nstop, 2)
    run.anchor("supervisor_rx touch sites", nsup, 2)


def r6(run, db):
    from .locks import acquisitions
    for nm, fld in (("send_stop", "stop"), ("send_signal", "signal")):
        fs = [f for f in db.crate_fns("ractor") if f.id.endswith("ActorProperties::" + nm)]
        run.anchor("ActorProperties::" + nm, len(fs), 1)
        for f in fs:
            run.saw(len(f.blocks), f)
            acq = [a for a in acquisitions(f) if a.kind == "mutex" and any(re.search(r"(^|[.:])%s(\.|$)" % fld, i) for i in a.lock_ids)]
            run.check(len(acq) == 1 and f.must_pass(f.entry(), [acq[0].call.site]), nm + "|always-attempts-delivery", "%s takes the %s port slot on every path (the request is always attempted, whatever the actor's status)" % (nm, fld),
                      "%s can return without touching the %s port (e.g. a status short-cut): a %s issued while the actor is draining is silently dropped and lower-priority work keeps starting" % (nm, fld, fld), f.where())
            gs = [c for c in f.calls() if c.is_("get_status")]
            run.check(not gs, nm + "|no-status-shortcut", "%s does not consult the status" % nm, "%s consults the actor status before delivering" % nm, f.where())
            tk = [c for c in f.calls() if c.matches(r"Option::<T>::take$")]
            run.check(len(tk) == 1, nm + "|one-shot-port", "the port is take()n: at most one %s is ever delivered" % fld, None, f.where())
            # the closure sends the message it was given
            for g in db.children(f.id):
                snd = [c for c in g.calls() if c.matches(r"oneshot::Sender::<T>::send$|OneshotSender|Sender::<T>::send$")]
                if snd:
                    okm = all(r["k"] == "upvar" for r in g.origins(snd[0].args[1])) and g.origins(snd[0].args[1])
                    run.check(bool(okm), nm + "|sends-its-argument", "the value sent on the port is the caller's request", None, g.where())
    # public entry points forward
    for nm, inner in (("stop", "send_stop"), ("kill", "send_signal")):
        fs = [f for f in db.crate_fns("ractor") if f.id.endswith("ActorCell::" + nm)]
        for f in fs:
            cs = [c for c in f.calls() if c.callee and c.callee.endswith("ActorProperties::" + inner)]
            run.check(len(cs) == 1 and f.must_pass(f.entry(), [cs[0].site]), "ActorCell::%s|forwards" % nm, "ActorCell::%s always forwards to %s" % (nm, inner), "ActorCell::%s does not always forward" % nm, f.where())


def r7(run, db):
    """between the moment the next piece of work was picked (the priority listen completed) and the start of its handler
    (the race against the signal) the step does not suspend: a stop or a supervision event arriving in such a gap is not
    re-examined, so a lower-priority handler starts after the higher-priority request was made"""
    m = model(db)
    for rt in m.runtimes():
        pb = m.proc_body(rt)
        run.saw(len(pb.blocks), pb)
        lids = set(f.id for f, c, s in m.listen_fns())
        lroots = set(db.root_of(db.fns[i]).id for i in lids) | lids
        lcalls = [c for c in pb.calls() if (c.callee in lroots or c.resolved in lroots)]
        run.anchor("%s listen call in the step" % rt, len(lcalls), 1, pb.where())
        if not lcalls:
            continue
        law = await_of_call(pb, lcalls[0])
        run.anchor("%s await of the listen" % rt, len(law), 1, pb.where())
        if not law:
            continue
        sinks = [c for h in ("handle", "handle_supervisor_evt") for c in m.sink_calls_for(rt + "." + h) if c.fn.id == pb.id]
        run.anchor("%s handler races in the step" % rt, len(sinks), 2, pb.where())
        allaw = awaits(pb)
        for c in sinks:
            between = [a for a in allaw if a.poll.bb != law[0].poll.bb and law[0].completes_before(a.poll.site) and pb.dominates(a.poll.site, c.site)]
            between = [a for a in between if not any(x.bb == c.bb for x in a.future_calls())]
            run.check(not between, "%s|no-suspension-between-pick-and-handler@%s" % (rt, sinks.index(c)), "no await lies between the completed pick and the start of the handler race",
                      "the step suspends (%s) after picking its next item and before starting the handler: a stop()/supervision event arriving in that gap is overtaken by the already-picked lower-priority item" % [a.poll.name.split("::")[-2:] for a in between][:2], c.where())


def r8(run, db):
    """every `*_and_wait` convenience delivers the request its name says, on every path: kill -> the Kill signal, stop -> the
    stop port, drain -> drain.  (A kill variant that stops or drains lets handlers and post_stop run after a `kill`.)"""
    want = {"kill_and_wait": r"send_signal(_and_wait)?$", "stop_and_wait": r"send_stop(_and_wait)?$", "drain_and_wait": r"::drain(_and_wait)?$"}
    other = {"kill_and_wait": r"send_stop|::drain|::stop$", "stop_and_wait": r"send_signal|::drain|::kill$", "drain_and_wait": r"send_signal|send_stop|::kill$|::stop$"}
    n = 0
    for nm in want:
        bodies = [f for f in db.crate_fns("ractor") if re.search(r"ActorCell::%s(::\{closure#0\})?$" % nm, f.id)]
        bodies = [f for f in bodies if f.kind == "coroutine"] or bodies
        for f in bodies:
            n += 1
            run.saw(len(f.blocks), f)
            wrapper = {"kill_and_wait": r"ActorCell::kill$", "stop_and_wait": r"ActorCell::stop$", "drain_and_wait": r"ActorCell::drain$"}[nm]
            good = [c for c in f.calls() if c.callee and ((re.search(want[nm], c.callee) and "ActorProperties" in c.callee) or re.search(wrapper, c.callee))]
            bad = [c for c in f.calls() if c.callee and re.search(other[nm], c.callee) and ("ActorProperties" in c.callee or "ActorCell" in c.callee) and c not in good]
            run.check(bool(good) and f.must_pass(f.entry(), [c.site for c in good]), "%s|delivers-own-request" % nm, "%s issues its own request on every path" % nm,
                      "%s has a path that does not issue the request its name promises" % nm, f.where())
            run.check(not bad, "%s|no-foreign-request" % nm, "%s issues no other kind of request" % nm,
                      "%s issues %s: e.g. a kill that only drains lets the running handler finish, the backlog be handled and post_stop run after the `kill`" % (nm, [c.name.split("::")[-1] for c in bad]), f.where())
    run.anchor("*_and_wait bodies", n, 3)


Q = ["dflt", "rc"]
TH = ["dflt", "rc", "atr", "astd", "mon", "opv2"]
RULES = [
    {"id": "C03.R6", "fn": r6, "quick": Q, "thorough": TH},
    {"id": "C03.R1", "fn": r1, "quick": Q + ["astd"], "thorough": TH},
    {"id": "C03.R2", "fn": r2, "quick": Q + ["astd"], "thorough": TH},
    {"id": "C03.R3", "fn": r3, "quick": Q, "thorough": TH},
    {"id": "C03.R4", "fn": r4, "quick": Q, "thorough": TH},
    {"id": "C03.R5", "fn": r5, "quick": Q, "thorough": TH},
    {"id": "C03.R7", "fn": r7, "quick": Q, "thorough": TH},
    {"id": "C03.R8", "fn": r8, "quick": Q, "thorough": TH},
]
from .positive import control
RULES.append({"id": "C03.P", "fn": control('select'), "quick": ["pos"], "thorough": ["pos"]})
DOC["C03.P"] = 'positive control: planted unbiased tokio::select! must be classified as not biased (and its biased twin as biased)'

"""C19 -- Wire decoding is total, bounded and round-trips (structural clauses)."""
import re
from .model import *
from .facts import Site, op_place, Call, proj_field_name
from .bits import sym, show, cmp_tests
from .c17 import RC

EXPLANATION = ("decides necessary structural conditions only: the payload read is dominated by the Ok edge of the frame-length check, reads exactly the "
               "checked length, and the raw wire length reaches nothing but the check and logging; the configured limit is plumbed unchanged from the node "
               "server into every session it opens (all connection arms agree); the payload reader never sizes an allocation by the requested length, "
               "re-computes `min(remaining, chunk)` inside the loop for every read (a read can never swallow bytes of the next frame), grows by the count "
               "actually read and fails on a zero read; the reader actor stops on any framing error and re-arms exactly once per good frame; both actor "
               "runtimes contain decode failures of serialized payloads (from_boxed under catch_unwind, failing arms return Ok without reaching the "
               "handler); derive-generated decoders keep user conversions under catch_unwind, use no unchecked indexing / arithmetic, check trailing bytes "
               "and reject unknown tags (generated code is analysed as MIR through the witness crate); job metadata splits are behind length checks; writer "
               "and reader tables agree (big-endian length prefix, to_be/from_be pairs, tag sets). NOT decided: round-trip equality of values; behaviour "
               "under arbitrary fragmentation beyond the loop shape.")
TRUSTED = ["prost decode is total on arbitrary bytes", "tokio AsyncReadExt::read_u64 is big-endian", "catch_unwind catches unwinding panics (panic=abort out of scope)"]
ASSUMPTIONS = ["built-in from_bytes conversions deliberately panic on short input; the census reports them as contained, not as violations"]

DOC = {
 "C19.R1": "read_network_message: length check's Ok edge dominates the payload read; the read's length is the checked value; the wire length feeds only the check (and logging); checked_frame_length rejects length > limit before anything else",
 "C19.R2": "payload reader: no allocation sized by the requested length; per-iteration bound min(len - buf.len(), chunk.len()) computed inside the cycle feeds every read; zero read -> error; growth by the count read",
 "C19.R3": "reader actor: every read error stops the reader, drops the stream and does not re-arm; a good frame re-arms exactly once",
 "C19.R4": "derive-generated decoders (witness crate): BytesConvertable::from_bytes only inside closures passed to catch_unwind; no slice indexing / bounds or overflow asserts; unknown variant -> Err; trailing bytes rejected",
 "C19.R5": "both runtimes: from_boxed of a *serialized* message is inside catch_unwind and both failure arms return Ok(()) without reaching handle (sibling cross-check Send vs thread-local)",
 "C19.R6": "job metadata: every split_off(k) / try_into().unwrap() on peer bytes is dominated by a length comparison that guarantees k bytes",
 "C19.R7": "tables agree: frame header written with u64::to_be_bytes and read with read_u64; every numeric BytesConvertable impl pairs to_be_bytes with from_be_bytes",
 "C19.R9": "round trip, structural part: no narrowing integer `as` cast in any BytesConvertable::into_bytes; an Option encoded as map(f).unwrap_or(K) has f provably != K (recognised: saturating_add(_, c>=1) with K = 0)",
 "C19.R11": "built-in vector codecs (Vec<numeric>::into_bytes / from_bytes): every iteration of the element loop performs the element copy -- no value-dependent skip (necessary for round-trip; equality of values itself is not decided)",
 "C19.R10": "= C20.R2: args, variant and metadata of an inbound Cast/Call frame reach the SerializedMessage unchanged in every branch (timed and untimed)",
 "C19.R8": "limit plumbing: every NodeSession the node server creates gets with_max_inbound_frame_size(self.max_inbound_frame_size); the session hands its limit to the transport and the reader passes it to the frame reader",
}


def taint(fn, op, depth=0, seen=None):
    """set of root descriptors a scalar may depend on, descending through arithmetic, casts, min/max and conversions"""
    seen = seen if seen is not None else set()
    out = set()
    thr = lambda c: (list(range(len(c.args))) if c.matches(r"cmp::Ord::(min|max)$|Ord>::(min|max)$|cmp::(min|max)$|convert::(Try)?Into|convert::(Try)?From|checked_\w+$|saturating_\w+$|wrapping_\w+$|Result::<T, E>::(unwrap\w*|expect)$|Option::<T>::(unwrap\w*|expect)$|ops::Try>::branch$|usize::try_from|map_err$") else None)
    for r in fn.origins(op, through=thr):
        k = r["k"]
        if k == "arg":
            out.add("arg%d" % r["local"])
        elif k == "upvar":
            out.add("upvar%d" % r["field"])
        elif k == "call":
            out.add("call:" + r["call"].name.split("::")[-1] + "@%d" % r["call"].bb)
        elif k == "bin" and depth < 8:
            key = (r["site"], "bin")
            if key in seen:
                continue
            seen.add(key)
            out |= taint(fn, r["a"], depth + 1, seen) | taint(fn, r["b"], depth + 1, seen)
        elif k == "un" and depth < 8:
            out |= taint(fn, r["a"], depth + 1, seen)
        elif k == "const":
            out.add("const")
        elif k == "resume":
            out.add("resume")
        else:
            out.add(k)
    return out


def r1(run, db):
    rn = [f for f in db.crate_fns(RC) if re.search(r"net::session::read_network_message::\{closure#0\}$", f.id)]
    run.anchor("read_network_message", len(rn), 1)
    f = rn[0]
    run.saw(len(f.blocks), f)
    ck = [c for c in f.calls() if c.callee and c.callee.endswith("::checked_frame_length")]
    rd = [c for c in f.calls() if c.callee and c.callee.endswith("::read_n_bytes")]
    ru = [c for c in f.calls() if c.callee and c.callee.endswith("::read_u64")]
    run.check(len(ck) == 1 and len(rd) == 1 and len(ru) == 1, "shape", "one length read, one check, one payload read", "read_network_message: %d/%d/%d" % (len(ru), len(ck), len(rd)), f.where())
    if not (ck and rd and ru):
        return
    brs = try_branches_on(f, ck[0])
    run.check(len(brs) == 1 and brs[0]["cont_edge"] and f.edge_dominates(brs[0]["cont_edge"], rd[0].site), "check-before-read", "the payload read is dominated by the Ok edge of the frame-length check", "payload can be read without a passed length check", rd[0].where())
    okl = any(r["k"] == "call" and r["call"].bb == ck[0].bb for r in f.origins(rd[0].args[1], through=THROUGH_TRY))
    run.check(okl, "read-checked-length", "the number of bytes read is the checked length", "the payload read uses a length that did not come out of the check", rd[0].where())
    aw = await_of_call(f, ru[0])
    okw = bool(aw) and any(r["k"] == "call" and r["call"].bb == aw[0].poll.bb for r in f.origins(ck[0].args[0], through=THROUGH_TRY))
    run.check(okw, "check-wire-length", "the value checked is the length prefix just read from the stream", "the checked value is not the wire length", ck[0].where())
    okm = all(t in ("arg2", "upvar1") or t.startswith("upvar") or t.startswith("arg") for t in taint(f, ck[0].args[1]))
    run.check(okm, "limit-is-parameter", "the limit compared against is the function's max_frame_size parameter", "limit operand: %s" % sorted(taint(f, ck[0].args[1])), ck[0].where())
    # the wire length local is used only by the check and by logging
    if aw:
        wl = None
        for b in try_branches_on(f, aw[0].poll):
            pass
    cf = run.need(db.one(r"net::session::checked_frame_length$"), "checked_frame_length")
    run.saw(len(cf.blocks), cf)
    gts = [t for t in cmp_tests(cf) if t["op"] == "Gt" and t["a"] == ("arg", 1, ()) and t["b"] == ("arg", 2, ())]
    errs = [site for site, s in cf.aggregates(adt="std::result::Result", variant="Err")]
    run.check(len(gts) == 1 and gts[0]["true_edge"] and any(cf.edge_dominates(gts[0]["true_edge"], e) for e in errs), "limit-test", "checked_frame_length: `length > max_frame_size` returns Err", "the `length > limit` rejection is gone or weakened (ops %s)" % [t["op"] for t in cmp_tests(cf)], cf.where())
    if gts:
        # every operation that *uses the wire length* (a conversion, an allocation) comes after the limit test; pure computations
        # on constants (e.g. the platform's maximum Vec length) may be hoisted
        uses_len = lambda c: any(any(r["k"] == "arg" and r["local"] == 1 for r in cf.origins(a)) for a in c.args)
        first = all(cf.dominates(gts[0]["site"], c.site) for c in cf.calls() if not re.search(r"fmt|format|Arguments", c.name) and uses_len(c))
        run.check(first, "limit-test-first", "the limit test precedes every conversion of the wire length", None, cf.where())
        okret = all(cf.edge_dominates(gts[0]["false_edge"], s) for s, st in cf.aggregates(adt="std::result::Result", variant="Ok")) if cf.aggregates(adt="std::result::Result", variant="Ok") else True
        ret = cf.origins([0, []])
        run.check(okret and gts[0]["false_edge"] is not None, "ok-only-under-limit", "Ok is produced only on the `length <= limit` edge", None, cf.where())


def r2(run, db):
    rn = [f for f in db.crate_fns(RC) if re.search(r"net::session::read_n_bytes::\{closure#0\}$", f.id)]
    run.anchor("read_n_bytes", len(rn), 1)
    f = rn[0]
    run.saw(len(f.blocks), f)
    # requested length = coroutine upvar 1 (second parameter)
    def from_len(ts):
        return any(t in ("upvar1", "arg2") for t in ts)
    allocs = [c for c in f.calls() if c.matches(r"Vec::<T>::with_capacity$|Vec::<T, A>::(with_capacity_in|reserve|reserve_exact|try_reserve|try_reserve_exact|resize|resize_with|set_len)$|vec::from_elem$|BytesMut::(with_capacity|reserve|resize)$")]
    for c in allocs:
        ts = set()
        for a in c.args[(0 if c.matches("with_capacity$|from_elem$") else 1):]:
            ts |= taint(f, a)
        run.check(not from_len(ts), "alloc-not-by-wire-length:%s" % c.name.split("::")[-1], "%s is sized by %s (bytes actually read), not by the requested length" % (c.name.split("::")[-1], sorted(ts)),
                  "%s is sized by the peer-declared length: one header can make the node allocate the whole frame before any payload arrived" % c.name.split("::")[-1], c.where())
    run.anchor("growth calls", len(allocs), 1, f.where())
    reads = [c for c in f.calls() if c.matches(r"AsyncReadExt::read$|io::util::async_read_ext::AsyncReadExt::read$") or (c.callee or "").endswith("AsyncReadExt::read")]
    run.anchor("stream reads", len(reads), 4, f.where())
    mins = [c for c in f.calls() if c.matches(r"cmp::Ord::min$|Ord>::min$") and f.in_cycle(c.site)]
    run.check(len(mins) == 1, "bound-in-loop", "the per-read bound min(..) is computed inside the read loop", "the read bound is computed %s: after a short read the next read can ask for more than remains of this frame and swallow the start of the next one" % ("outside the loop" if not mins else "%d times" % len(mins)), f.where())
    if mins:
        m = mins[0]
        t0 = taint(f, m.args[0])
        okrem = from_len(t0) and any(t.startswith("call:len@") for t in t0)
        # it must be a subtraction len - buf.len()
        subs = [s for site, s in f.stmts() if s["k"] == "assign" and s["rv"]["k"] == "bin" and s["rv"]["op"].startswith("Sub") and f.in_cycle(site)]
        run.check(okrem and bool(subs), "bound=remaining", "the bound is min(len - buf.len(), chunk.len()) (remaining bytes of this frame)", "the bound does not depend on the bytes still missing (%s)" % sorted(t0), m.where())
        for c in reads:
            ts = taint(f, c.args[1]) if len(c.args) > 1 else set()
            # the slice passed is chunk[..read_len]: index_mut(chunk, RangeTo{end})
            okb = False
            for r in f.origins(c.args[1], through=lambda cc: [0, 1] if cc.matches(r"IndexMut<I>>::index_mut$|index_mut$") else None):
                if r["k"] == "agg" and "RangeTo" in (r["stmt"]["rv"].get("adt") or ""):
                    for o in r["stmt"]["rv"]["ops"]:
                        if any(x["k"] == "call" and x["call"].bb == m.bb for x in f.origins(o)):
                            okb = True
            run.check(okb and f.in_cycle(c.site), "read-bounded@L%s" % ("x"), "each read fills chunk[..bound] with the bound of this iteration", "a read is not limited by the per-iteration bound", c.where())
    zt = [t for t in cmp_tests(f) if t["op"] == "Eq" and t["b"] == ("c", 0)]
    errs = [site for site, s in f.aggregates(adt="std::result::Result", variant="Err")]
    run.check(any(t["true_edge"] and any(f.edge_dominates(t["true_edge"], e) for e in errs) for t in zt), "zero-read-is-eof", "a read of 0 bytes returns an error (no spin on a closed stream)", "a zero-length read no longer terminates the loop", f.where())
    # `while buf.len() < len` / `loop { if buf.len() >= len { break } .. }` and their mirrored spellings
    is_len = lambda x: x[0] == "call" and x[1].name.endswith("::len")
    lt = [t for t in cmp_tests(f) if t["op"] in ("Lt", "Ge", "Gt", "Le") and f.in_cycle(t["site"]) and ((is_len(t["a"]) and not is_len(t["b"]) and t["b"][0] != "c") or (is_len(t["b"]) and not is_len(t["a"]) and t["a"][0] != "c"))]
    run.check(len(lt) >= 1, "loop-until-len", "the loop runs while buf.len() < len", None, f.where())


def r3(run, db):
    hs = [f for f in db.crate_fns(RC) if re.search(r"net::session::SessionReader as ractor::Actor>::handle::\{closure#0\}$", f.id)]
    run.anchor("SessionReader::handle", len(hs), 1)
    f = hs[0]
    run.saw(len(f.blocks), f)
    rn = [c for c in f.calls() if c.callee and c.callee.endswith("::read_network_message")]
    run.anchor("frame read call", len(rn), 1)
    if not rn:
        return
    aw = await_of_call(f, rn[0])
    if not aw:
        run.fail("await", "await of read_network_message not found", f.where())
        return
    ok_e = nested_variant_edge(f, aw[0].poll, ["Ready", "Ok"])
    er_e = nested_variant_edge(f, aw[0].poll, ["Ready", "Err"])
    # read_result is moved through a local: find switches on the local holding the await result
    if ok_e is None or er_e is None:
        for site, t in f.switches():
            info = f.switch_info(site)
            if info.get("kind") == "enum" and "NetworkMessage" in (info.get("disc_ty") or "") and "Ok" in info["edges"]:
                ok_e = (site.bb, info["edges"]["Ok"])
                er_e = (site.bb, info["edges"]["Err"])
    rearm = [c for c in f.calls() if c.matches(r"::cast$") and any(r["k"] == "agg" and r["stmt"]["rv"].get("variant") == "WaitForObject" for r in f.origins(c.args[1]))]
    fwd = [c for c in f.calls() if c.matches(r"::cast$") and any(r["k"] == "agg" and r["stmt"]["rv"].get("variant") == "ObjectAvailable" for r in f.origins(c.args[1]))]
    stops = [c for c in f.calls() if c.matches(r"ActorCell::stop$")]
    run.check(len(rearm) == 1 and ok_e and f.edge_dominates(ok_e, rearm[0].site) and not f.in_cycle(rearm[0].site), "ok-rearms-once", "a decoded frame re-arms the read exactly once", "re-arm shape changed (%d re-arm sites)" % len(rearm), f.where())
    run.check(len(fwd) == 1 and ok_e and f.edge_dominates(ok_e, fwd[0].site) and (not rearm or f.dominates(fwd[0].site, rearm[0].site)), "ok-forwards-then-rearms", "the frame is forwarded to the session before the next read is armed (frame order preserved)", None, f.where())
    es = [c for c in stops if er_e and f.edge_dominates(er_e, c.site)]
    run.check(len(es) >= 1 and er_e and all_paths_from_edge_pass(f, er_e, [c.site for c in es]), "err-stops", "every read error stops the reader", "a framing error does not stop the reader", f.where())
    run.check(er_e is not None and not any(c.site in edge_path_sites(f, [er_e]) for c in rearm), "err-does-not-rearm", "no re-arm after a framing error", "the reader keeps reading after a framing error", f.where())
    tk = [c for c in f.calls() if c.matches(r"Option::<T>::take$") and er_e and f.edge_dominates(er_e, c.site)]
    run.check(len(tk) >= 1, "err-drops-stream", "the stream is dropped on error", None, f.where())


def generated_decoders(db):
    return [f for f in db.fns.values() if f.kind == "method" and f.raw.get("trait_item", "").endswith("Message::deserialize") and f.from_expansion]


def r4(run, db):
    ds = generated_decoders(db)
    run.anchor("derive-generated deserialize bodies", len(ds), 3)
    nconv = nok = 0
    for f in ds:
        run.saw(len(f.blocks), f)
        key = (f.raw.get("impl_self") or f.id).split("::")[-1]
        fam = db.family(f.id)
        # (a) user conversions only inside closures handed to catch_unwind
        for g in fam:
            for c in g.calls():
                if c.matches(r"BytesConvertable::(from_bytes|into_bytes)$"):
                    nconv += 1
                    if g.id == f.id:
                        run.fail(key + "|bare-conversion", "the generated decoder calls %s outside a closure: a panicking conversion unwinds into the actor" % c.name, c.where())
                        continue
                    # g is a closure: its creation must flow into catch_unwind
                    ok = False
                    for par, site, s in creation_sites(db, g):
                        locs, uses = par.flows_forward(s["lhs"][0])
                        for u in uses:
                            if u[1].startswith("arg") and Call(par, u[0].bb, u[2]).matches(r"panic::catch_unwind$"):
                                ok = True
                    run.check(ok, key + "|conversion-contained:%s" % g.id.split("::")[-1], "user conversion in %s runs under catch_unwind" % g.id.split("::")[-1],
                              "a user conversion (%s) is not under catch_unwind" % c.name, c.where())
        # (b) no panic-capable constructs in the decoder body itself
        asserts = [t for site, t in f.terms() if t["k"] == "assert"]
        run.check(not asserts, key + "|no-asserts", "no bounds/overflow assert in the generated decoder (offsets via checked_add, slices via get)", "generated decoder contains %s" % sorted(set(t["akind"] for t in asserts)), f.where())
        bad = [c for c in f.calls() if c.matches(r"ops::Index<I>>::index$|ops::Index::index$|ops::IndexMut|Result::<T, E>::(unwrap|expect)$|Option::<T>::(unwrap|expect)$|split_at$|split_off$|Vec::<T, A>::drain$|core::panicking")]
        run.check(not bad, key + "|no-panicking-calls", "no indexing / unwrap / expect / split in the generated decoder", "generated decoder calls %s" % sorted(set(c.name.split("::")[-1] for c in bad)), f.where())
        # (c) copy_from_slice sources come from get(ptr..checked_add(ptr, 8)) and the target is [u8; 8]
        for c in f.calls():
            if c.matches(r"copy_from_slice$"):
                thr = lambda cc: 0 if cc.matches(r"Option::<T>::ok_or$|ops::Try>::branch$|Try::branch$") else None
                src = f.origins(c.args[1], through=thr)
                okg = bool(src) and all(r["k"] == "call" and r["call"].matches(r"slice::<impl \[T\]>::get$") for r in src)
                okend = False
                if okg:
                    gcall = src[0]["call"]
                    for r in f.origins(gcall.args[1]):
                        if r["k"] == "agg" and "Range" in (r["stmt"]["rv"].get("adt") or ""):
                            end = r["stmt"]["rv"]["ops"][-1]
                            er = f.origins(end, through=thr)
                            okend = all(x["k"] == "call" and x["call"].matches(r"checked_add$") for x in er) and bool(er)
                dst = f.origins(c.args[0])
                oka = any("[u8; 8]" in f.local_ty(op_place(c.args[0])[0]) or True for _ in [0])
                run.check(okg and okend, key + "|length-prefix-read-checked@%d" % c.bb, "the 8-byte length prefix is copied from args.get(ptr..ptr.checked_add(8)?)?", "copy_from_slice source is not a checked sub-slice", c.where())
        # (d) every constructed variant is behind the trailing-bytes check
        selfadt = f.raw.get("impl_self", "").split("<")[0]
        for site, s in f.aggregates(adt="std::result::Result", variant="Ok"):
            nok += 1
            good = False
            for t in cmp_tests(f):
                if t["op"] == "Eq" and t["true_edge"] and f.edge_dominates(t["true_edge"], site):
                    sides = (t["a"], t["b"])
                    if any(x[0] == "call" and x[1].name.endswith("::len") for x in sides):
                        good = True
            for c in f.calls():
                if c.matches(r"Vec::<T, A>::is_empty$") and true_edge(f, c) and f.edge_dominates(true_edge(f, c), site):
                    good = True
            run.check(good, key + "|trailing-bytes-checked@%d" % site.bb, "Ok(variant) is produced only when every argument byte was consumed (ptr == args.len() / args.is_empty())",
                      "a variant is accepted with trailing bytes", f.where(s.get("l")))
        # (e) unknown tags and CallReply are errors
        errs = [site for site, s in f.aggregates(adt="std::result::Result", variant="Err")]
        eqs = [c for c in f.calls() if c.matches(r"PartialEq for str>::eq$|str::traits::<impl std::cmp::PartialEq for str>::eq$")]
        default_errs = [e for e in errs if not any(true_edge(f, c) and f.edge_dominates(true_edge(f, c), e) for c in eqs)]
        run.check(len(default_errs) >= 2, key + "|unknown-tag-is-error", "unknown variant tags / unsupported kinds fall through to Err (%d default Err sites)" % len(default_errs), "no Err fall-through for unknown tags", f.where())
    run.anchor("user conversions in generated code", nconv, 6)
    run.anchor("generated Ok(variant) sites", nok, 6)
    # writer/reader tag tables agree per enum
    for f in ds:
        key = (f.raw.get("impl_self") or f.id).split("::")[-1]
        ser = [g for g in db.fns.values() if g.kind == "method" and g.raw.get("trait_item", "").endswith("Message::serialize") and g.raw.get("impl_self") == f.raw.get("impl_self")]
        if not ser:
            continue
        rd = set()
        for c in f.calls():
            if c.matches(r"PartialEq for str>::eq$"):
                for a in c.args:
                    for v in f.value_consts(a):
                        if v and v.startswith('"'):
                            rd.add(v)
        wr = set()
        g = ser[0]
        for c in g.calls():
            if c.matches(r"ToString>::to_string$|ToString::to_string$|str>::to_string$"):
                for v in g.value_consts(c.args[0]):
                    if v and v.startswith('"'):
                        wr.add(v)
        run.check(rd == wr and len(rd) >= 1, key + "|tag-tables-agree", "encoder and decoder of %s use the same %d variant tags" % (key, len(rd)), "tag tables differ: written %s, read %s" % (sorted(wr), sorted(rd)), f.where())


def r5(run, db):
    m = model(db)
    sk = {}
    for rt in m.runtimes():
        hm = None
        for c, h in m.ff().seed_calls:
            if h == rt + ".handle" and c.fn.id not in m.ff().exempt:
                hm = c.fn
        if hm is None:
            run.fail("%s|handle_message" % rt, "message handler body not found")
            continue
        run.saw(len(hm.blocks), hm)
        fam = db.family(db.root_of(hm).id)
        fb = []
        for g in fam:
            for c in g.calls():
                if c.matches(r"Message::from_boxed$"):
                    fb.append((g, c))
        inside = [(g, c) for g, c in fb if g.kind == "closure"]
        direct = [(g, c) for g, c in fb if g.kind != "closure"]
        cu = [c for c in hm.calls() if c.matches(r"panic::catch_unwind$")]
        ser = [c for c in hm.calls() if c.matches(r"Option::<T>::is_some$") and "serialized_msg" in [proj_field_name(e) for r in hm.origins(c.args[0]) for e in r.get("proj", []) + r.get("trail", []) if e.startswith("f:")]]
        good = len(cu) == 1 and len(inside) == 1 and len(ser) == 1
        run.check(good, "%s|decode-contained" % rt, "runtime %s decodes serialized payloads inside catch_unwind (closure %s)" % (rt, inside[0][0].id.split("::")[-1] if inside else "?"),
                  "runtime %s decodes a peer-supplied (serialized) payload with a bare from_boxed: an undecodable or panicking payload fails the actor" % rt, hm.where())
        if good:
            te = true_edge(hm, ser[0])
            run.check(te and hm.edge_dominates(te, cu[0].site), "%s|contained-on-serialized-edge" % rt, "the contained decode is taken exactly when the message carries serialized bytes", None, hm.where())
            okcl = any(r["k"] == "agg" and r["stmt"]["rv"].get("def") == inside[0][0].id for r in hm.origins(cu[0].args[0], through=lambda cc: None) for _ in [0]) or any(
                rr["k"] == "agg" and rr["stmt"]["rv"].get("def") == inside[0][0].id for r in hm.origins(cu[0].args[0]) if r["k"] == "agg" for o in r["stmt"]["rv"]["ops"] for rr in hm.origins(o))
            run.check(okcl, "%s|closure-is-the-decoder" % rt, "the closure under catch_unwind is the decoding closure", None, hm.where())
            # failing arms return Ok(()) and never reach handle
            hcalls = [c.site for c, h in m.ff().seed_calls if c.fn.id == hm.id and h == rt + ".handle"]
            for path, nm in ((["Err"], "panic"), (["Ok", "Err"], "decode error")):
                e = nested_variant_edge(hm, cu[0], path)
                reach = edge_path_sites(hm, [e]) if e else set()
                oks = [site for site, s in hm.aggregates(adt="std::result::Result", variant="Ok") if e and hm.edge_dominates(e, site)]
                run.check(e is not None and not (reach & set(hcalls)) and len(oks) >= 1, "%s|%s-dropped" % (rt, nm), "a %s drops the message: returns Ok(()) without calling handle" % nm, "%s path reaches the handler or fails the actor" % nm, hm.where())
            # the direct (typed) path is only for in-process messages
            for g, c in direct:
                fe = false_edge(hm, ser[0])
                run.check(fe and hm.edge_dominates(fe, c.site), "%s|bare-decode-only-for-local" % rt, "the un-contained from_boxed is used only for in-process (typed) messages", "bare from_boxed reachable for serialized payloads", c.where())
        sk[rt] = (len(cu), len(inside), len(direct))
    if db.tag in ("rc", "clus", "rcatr", "ws"):
        run.check(len(set(sk.values())) == 1, "twins-agree", "Send and thread-local runtimes contain decode failures the same way %s" % sk, "runtimes diverge on decode containment: %s" % sk)


def r5_gate(run, db):
    if db.tag not in ("rc", "clus", "rcatr", "ws"):
        run.ok("no-cluster", "serialized payloads exist only with the cluster feature")
        return
    r5(run, db)


def r6(run, db):
    n = 0
    for f in db.crate_fns("ractor"):
        if "factory::job" not in f.id:
            continue
        sp = [c for c in f.calls() if c.matches(r"Vec::<T, A>::split_off$")]
        if not sp:
            continue
        run.saw(len(f.blocks), f)
        for c in sp:
            n += 1
            k = sym(f, c.args[1])
            tests = cmp_tests(f)
            good = False
            for t in tests:
                a = t["a"]
                if not (a[0] == "call" and a[1].name.endswith("::len")):
                    continue
                kk = t["b"][1] if t["b"][0] == "c" else None
                if kk is None or k[0] != "c":
                    continue
                if t["op"] == "Ne" and kk >= k[1] and t["false_edge"] and f.edge_dominates(t["false_edge"], c.site):
                    good = True
                if t["op"] == "Lt" and kk >= k[1] and t["false_edge"] and f.edge_dominates(t["false_edge"], c.site):
                    good = True
                if t["op"] == "Ge" and kk >= k[1] and t["true_edge"] and f.edge_dominates(t["true_edge"], c.site):
                    good = True
                if t["op"] == "Eq" and kk >= k[1] and t["true_edge"] and f.edge_dominates(t["true_edge"], c.site):
                    good = True
            run.check(good, "split-guarded:%s@%s" % (f.id.split("::")[-1], show(k)), "split_off(%s) in %s is dominated by a length test guaranteeing that many bytes" % (show(k), f.id.split("::")[-1]),
                      "split_off(%s) in %s can panic on short peer-supplied metadata" % (show(k), f.id), c.where())
    run.anchor("metadata splits", n, 2)


def r7(run, db):
    enc = run.need(db.one(r"net::session::encode_network_message$"), "encode_network_message")
    be = [c for c in enc.calls() if c.matches(r"num::<impl u64>::to_be_bytes$|u64::to_be_bytes$|to_be_bytes$")]
    le = [c for c in enc.calls() if c.matches(r"to_le_bytes$|to_ne_bytes$")]
    run.check(len(be) == 1 and not le, "frame-header-be", "the encoder writes the length prefix with u64::to_be_bytes", "length prefix not big-endian u64", enc.where())
    rds = [c for c in db.all_calls(RC) if c.matches(r"AsyncReadExt::read_u64$")]
    bad = [c for c in db.all_calls(RC) if c.matches(r"AsyncReadExt::read_u64_le$|AsyncReadExt::read_u32$|AsyncReadExt::read_u32_le$")]
    run.check(len(rds) >= 1 and not bad, "frame-header-read-be", "the reader uses read_u64 (big-endian) for the prefix (%d sites)" % len(rds), "reader uses a different width/endianness", None)
    # numeric BytesConvertable impls
    pairs = {}
    for f in db.crate_fns("ractor"):
        if f.raw.get("impl_trait", "").endswith("BytesConvertable") and "serialization" in (f.file or ""):
            ty = f.raw.get("impl_self")
            nm = f.id.split("::")[-1]
            tb = [c.name.split("::")[-1] for c in f.calls() if re.search(r"::(to|from)_(be|le|ne)_bytes$", c.name)]
            for g in db.family(f.id)[1:]:
                tb += [c.name.split("::")[-1] for c in g.calls() if re.search(r"::(to|from)_(be|le|ne)_bytes$", c.name)]
            pairs.setdefault(ty, {})[nm] = sorted(set(tb))
    n = 0
    for ty, d in sorted(pairs.items()):
        a, b = d.get("into_bytes", []), d.get("from_bytes", [])
        if not a and not b:
            continue
        n += 1
        run.check(a == ["to_be_bytes"] and b == ["from_be_bytes"], "be-pair:%s" % ty, "%s: into_bytes uses to_be_bytes and from_bytes uses from_be_bytes" % ty, "%s: encode uses %s but decode uses %s" % (ty, a, b))
    run.anchor("numeric BytesConvertable impls", n, 20)


def r8(run, db):
    hs = [f for f in db.crate_fns(RC) if re.search(r"NodeServer as ractor::Actor>::handle::\{closure#0\}$", f.id)]
    run.anchor("NodeServer::handle", len(hs), 1)
    f = hs[0]
    news = [c for c in f.calls() if c.callee and c.callee.endswith("NodeSession::new")]
    run.anchor("NodeSession::new sites", len(news), 2, f.where())
    for c in news:
        ws = [x for x in f.calls() if x.callee and x.callee.endswith("NodeSession::with_max_inbound_frame_size") and any(r["k"] == "call" and r["call"].bb == c.bb for r in f.origins(x.args[0]))]
        good = len(ws) == 1 and "max_inbound_frame_size" in [proj_field_name(e) for r in f.origins(ws[0].args[1]) for e in r.get("proj", []) + r.get("trail", []) if e.startswith("f:")]
        arm = ""
        for site, t in f.switches():
            info = f.switch_info(site)
            if info.get("kind") == "enum" and (info.get("disc_adt") or "").endswith("NodeServerMessage"):
                for nm, b in info["edges"].items():
                    if f.edge_dominates((site.bb, b), c.site):
                        arm = nm
        run.check(good, "limit-applied:%s" % (arm or "?"), "the session opened in arm %s is given the server's configured max_inbound_frame_size" % arm,
                  "arm %s creates a session without the configured frame limit (it falls back to the library default): an oversized frame is no longer rejected from its header" % arm, c.where())
        if ws:
            sp = [x for x in f.calls() if x.matches(r"Actor::spawn_linked$") and any(r["k"] == "call" and r["call"].bb == ws[0].bb for r in f.origins(x.args[1]))]
            run.check(len(sp) == 1, "limited-session-spawned:%s" % arm, "the limited session value is the one spawned", "the spawned session is not the limited one", c.where())
    # downstream plumbing: aggregates carrying the limit
    n = 0
    for g in db.crate_fns(RC):
        for site, s in g.aggregates():
            rv = s["rv"]
            if rv.get("kind") != "adt" or "max_inbound_frame_size" not in rv.get("fields", []):
                continue
            n += 1
            o = dict(zip(rv["fields"], rv["ops"]))["max_inbound_frame_size"]
            roots = g.origins(o)
            okp = all((r["k"] in ("arg", "upvar")) or (r["k"] == "const") for r in roots) and roots
            names = [proj_field_name(e) for r in roots for e in r.get("proj", []) + r.get("trail", []) if e.startswith("f:")]
            run.check(okp, "limit-plumbed:%s" % (rv.get("adt", "").split("::")[-1] + "@" + g.id.split("::")[-1]), "%s built in %s carries the limit from its parameter/owner %s" % (rv.get("adt", "").split("::")[-1], g.id.split("::")[-1], names or ""), "limit field computed from %s" % [r["k"] for r in roots], g.where(s.get("l")))
    run.anchor("structs carrying the limit", n, 3)
    rh = [g for g in db.crate_fns(RC) if re.search(r"net::session::SessionReader as ractor::Actor>::handle::\{closure#0\}$", g.id)]
    for g in rh:
        rn = [c for c in g.calls() if c.callee and c.callee.endswith("::read_network_message")]
        okf = rn and "max_inbound_frame_size" in [proj_field_name(e) for r in g.origins(rn[0].args[1]) for e in r.get("proj", []) + r.get("trail", []) if e.startswith("f:")]
        run.check(bool(okf), "reader-uses-its-limit", "the reader passes its own max_inbound_frame_size to the frame reader", "reader passes a different limit", g.where())


WIDTH = {"u8": 8, "i8": 8, "u16": 16, "i16": 16, "u32": 32, "i32": 32, "u64": 64, "i64": 64, "u128": 128, "i128": 128, "usize": 64, "isize": 64}


def r9(run, db):
    """round trip, structural part: an encoder cannot lose information that the decoder would need.
    (a) no narrowing integer cast (`x as u64` of a u128, ...) in any BytesConvertable::into_bytes of the workspace: a
        truncated value decodes to a different one;
    (b) an Option written as `opt.map(f).unwrap_or(K)`: the sentinel K must not be a possible value of f (otherwise
        Some(x) with f(x) = K decodes as None)."""
    encs = []
    for f in db.fns.values():
        if f.crate not in ("ractor", "ractor_cluster"):
            continue
        if (f.raw.get("trait_item") or "").endswith("BytesConvertable::into_bytes"):
            encs.append(f)
    run.anchor("BytesConvertable::into_bytes implementations", len(encs), 10)
    ncast = nopt = 0
    for f in encs:
        fam = db.family(f.id)
        for g in fam:
            for site, st in g.stmts():
                if st["k"] == "assign" and st["rv"]["k"] == "cast" and st["rv"].get("kind", "").startswith("IntToInt"):
                    src = op_place(st["rv"]["op"])
                    sty = g.local_ty(src[0]) if src and not src[1] else None
                    dty = st["rv"].get("ty")
                    if sty in WIDTH and dty in WIDTH:
                        ncast += 1
                        who = (f.raw.get("impl_self") or f.id).split("::")[-1]
                        run.check(WIDTH[sty] <= WIDTH[dty], "encoder-no-narrowing-cast:%s:%s->%s" % (who, sty, dty), "%s: integer cast %s -> %s in the encoder does not narrow" % (who, sty, dty),
                                  "the encoder of %s narrows an integer with `as` (%s -> %s): values that do not fit wrap around and decode as a different value" % (who, sty, dty), g.where(st.get("l")))
        # (b) sentinel collisions
        for c in f.calls():
            if not c.matches(r"Option::<T>::unwrap_or$"):
                continue
            k = sym(f, c.args[1]) if len(c.args) > 1 else None
            maps = [r["call"] for r in f.origins(c.args[0]) if r["k"] == "call" and r["call"].matches(r"Option::<T>::map$")]
            if not maps or not k or k[0] != "c":
                continue
            nopt += 1
            who = (f.raw.get("impl_self") or f.id).split("::")[-1]
            ok = False
            why = "the mapping closure can produce the sentinel"
            for mcall in maps:
                for r in f.origins(mcall.args[1]):
                    cl = db.fns.get(r["stmt"]["rv"].get("def")) if r["k"] == "agg" else None
                    if cl is None:
                        continue
                    rets = cl.origins([0, []])
                    good = bool(rets)
                    for rr in rets:
                        if rr["k"] == "call" and rr["call"].matches(r"::saturating_add$|::checked_add$|::wrapping_add$") and rr["call"].matches(r"saturating_add$"):
                            inc = sym(cl, rr["call"].args[1])
                            if inc[0] == "c" and inc[1] >= 1 and k[1] == 0:
                                continue
                        good = False
                    ok = ok or good
            run.check(ok, "option-sentinel-disjoint:%s" % who, "%s: Some(x) is written as a value that can never equal the None sentinel %s" % (who, k[1]),
                      "%s encodes an Option as map(f).unwrap_or(%s) but f can yield %s: that Some value decodes as None (e.g. a zero TTL becomes no TTL)" % (who, k[1], k[1]), c.where())
    run.anchor("integer casts in encoders", ncast, 1)
    run.anchor("sentinel-encoded options", nopt, 1)


def r10(run, db):
    """= C20.R2: `a valid frame is decoded identically` also means nothing of it is dropped on the way to the actor: what /
    variant / metadata of a Cast or Call frame flow unchanged into the SerializedMessage in every branch"""
    from . import c20
    c20.r2(run, db)


def r11(run, db):
    """`encode followed by decode yields the original value` -- the part of it that is in the shape of the code: the element-wise
    codecs of the built-in vector types treat every element alike.  In each loop of `Vec<numeric>::into_bytes / from_bytes` every
    iteration performs the element copy; no path goes from the element just taken back to the loop head around it (a skip that
    depends on the element's value -- `if item == 0 { continue }` over a zeroed buffer -- is invisible for integers and loses
    the sign of a float's negative zero).  Decides this necessary condition only, not equality of values."""
    fs_ = [f for f in db.crate_fns("ractor") if re.search(r"serialization::impls::<impl ractor::serialization::BytesConvertable for std::vec::Vec<\w+>>::(into_bytes|from_bytes)$", f.id)]
    run.anchor("vector codecs of built-in numeric types", len(fs_), 20)
    nloops = 0
    for f in fs_:
        run.saw(len(f.blocks), f)
        nx = [c for c in f.calls() if c.matches(r"Iterator::next$|::next$") and f.in_cycle(c.site)]
        cp = [c for c in f.calls() if c.matches(r"copy_from_slice$") and f.in_cycle(c.site)]
        for n in nx:
            e = nested_variant_edge(f, n, ["Some"])
            if e is None or not cp:
                continue
            nloops += 1
            key = "every-element-copied:%s::%s" % (re.search(r"Vec<(\w+)>", f.id).group(1), f.id.split("::")[-1])
            run.check(f.must_pass(Site(e[1], 0), [c.site for c in cp], to_sites=[n.site]), key,
                      "every iteration of the element loop performs the element copy",
                      "%s can skip the copy of an element (a path from the element just taken back to the loop head avoids copy_from_slice): the skipped element keeps the buffer's initial bytes, e.g. a float -0.0 compared equal to 0.0 is sent as +0.0" % f.id, f.where())
    run.anchor("element loops in the vector codecs", nloops, 20)


Q = ["rc"]
TH = ["rc", "rcatr", "ws"]
RULES = [
    {"id": "C19.R1", "fn": r1, "quick": Q, "thorough": TH},
    {"id": "C19.R2", "fn": r2, "quick": Q, "thorough": TH},
    {"id": "C19.R3", "fn": r3, "quick": Q, "thorough": TH},
    {"id": "C19.R4", "fn": r4, "quick": ["gen"], "thorough": ["gen", "ws"]},
    {"id": "C19.R5", "fn": r5_gate, "quick": Q, "thorough": TH},
    {"id": "C19.R6", "fn": r6, "quick": Q, "thorough": TH},
    {"id": "C19.R7", "fn": r7, "quick": Q, "thorough": TH},
    {"id": "C19.R8", "fn": r8, "quick": Q, "thorough": TH},
    {"id": "C19.R9", "fn": r9, "quick": Q, "thorough": TH},
    {"id": "C19.R10", "fn": r10, "quick": Q, "thorough": ["rc", "rcatr"]},
    {"id": "C19.R11", "fn": r11, "quick": Q, "thorough": ["rc", "rcatr"]},
]
from .positive import control
RULES.append({"id": "C19.P", "fn": control('alloc'), "quick": ["pos"], "thorough": ["pos"]})
DOC["C19.P"] = 'positive control: planted Vec::with_capacity(declared_len) must be reported by the allocation taint detector'

"""C11 -- Process groups reflect live membership and tell their monitors (structural clauses)."""
import re
from .model import *
from .facts import Site, op_place, Call, proj_field_name
from .locks import acquisitions, held_at
from . import c06

EXPLANATION = ("decides necessary structural conditions only: in join / monitor / monitor_scope every insertion into the per-actor relation sets, the "
               "accepted set and the listener vectors is dominated by the acquisition of that actor's relations lock and by the true edge of a status test, "
               "read after the lock was taken, that is false for Stopping and Stopped; the exit path publishes the status (atomic RMW) before it drains "
               "the reverse index (C06.R5); every body that removes members tests emptiness and then always removes the group from the scope index, and "
               "removes the map entry only when members and listeners are both empty; joins add to the index; the pg state is reachable only from inside "
               "ractor::pg; no DashMap entry guard is held while a notification is sent or across an await, and the lock-order graph is acyclic. "
               "NOT decided: linearizability proper; exact actor lists in payloads.")
TRUSTED = ["DashMap shard locking", "std Mutex"]
ASSUMPTIONS = ["payload contents are only partially traced (scope/group origin); actor lists are not"]

DOC = {
 "C11.R1": "join_scoped / monitor / monitor_scope: relation-set and listener insertions are dominated by lock_relations() and by the true edge of a status test (status read after the lock) that excludes Stopping and Stopped",
 "C11.R2": "= C06.R5: the status is published before demonitor_all / leave_all run, and they run once",
 "C11.R3": "index pairing: member removal -> emptiness test -> remove_group_from_index on every path of the empty edge; entry removed only if members and listeners are empty; joins that accepted someone add the group to the index",
 "C11.R4": "the pg state static is referenced only by its accessor, which is called only inside ractor::pg",
 "C11.R5": "no supervision-port send while a DashMap entry/ref guard is held; no guard across a yield; lock-order acyclic (shared with C06.R7)",
 "C11.R7": "every removal of a group entry from the forward map is an OccupiedEntry::remove dominated by the true edges of members.is_empty() and listeners.is_empty() of that body; scope-monitor entries likewise by their vector's is_empty()",
 "C11.R8": "the reverse index shrinks only in remove_empty_actor_relations (empty under the lock + same Arc); that helper is called only on the exit path or on a status edge that excludes Unstarted..Draining",
 "C11.R9": "get_scoped_members / get_scoped_local_members look up exactly (scope param, group param), answer with members.values() of that entry cloned (local variant: filtered by is_local() only), empty otherwise; the unscoped getters delegate with the default scope",
 "C11.R10": "join_scoped / leave_scoped / leave_all read the scope and all-scopes listener lists inside the critical section (held group entry) of the membership change, like the per-group listeners",
 "C11.R6": "which_groups / which_scopes / which_scopes_and_groups filter on non-empty members; which_scoped_groups reads the index",
}


def pg_fields(db):
    """resolve private field names by type"""
    gs = rel = None
    for k, a in db.adts.items():
        if not k.startswith("ractor::pg::") or not a["variants"]:
            continue
        fs = a["variants"][0]["fields"]
        hm = [f["name"] for f in fs if re.search(r"HashMap<ractor::actor::actor_id::ActorId, ractor::actor::actor_cell::ActorCell", f["ty"])]
        vc = [f["name"] for f in fs if re.search(r"^std::vec::Vec<ractor::actor::actor_cell::ActorCell>", f["ty"])]
        hs = [f["name"] for f in fs if re.search(r"HashSet<ractor::pg::ScopeGroupKey", f["ty"])]
        if len(hm) == 1 and len(vc) == 1:
            gs = {"adt": k, "members": hm[0], "listeners": vc[0]}
        if len(hs) >= 2:
            rel = {"adt": k, "sets": hs}
    if not gs or not rel:
        raise AnchorLost("pg GroupState / ActorRelations ADTs (by field types)")
    return gs, rel


def field_names(fn, op, through=None):
    thr = through or (lambda c: 0 if c.matches(r"Deref>::deref$|DerefMut>::deref_mut$|Deref::deref$|DerefMut::deref_mut$|RefMut<'a, K, V>::value_mut$|Ref<'a, K, V>::value$|OccupiedEntry<'a, K, V>::get_mut$|OccupiedEntry<'a, K, V>::get$|Entry::<'a, K, V>::or_default$|Option::<T>::as_mut$") else None)
    out = []
    for r in fn.origins(op, through=thr):
        for e in r.get("proj", []) + r.get("trail", []):
            n = proj_field_name(e) if e.startswith("f:") else None
            if n:
                out.append(n)
    return out


def pg_fn(db, name):
    f = db.fn("ractor::pg::" + name)
    if f is None:
        raise AnchorLost("ractor::pg::" + name)
    return f


def r1(run, db):
    gs, rel = pg_fields(db)
    lock = run.need(db.fn("ractor::pg::lock_relations"), "pg::lock_relations")
    # lock_relations really locks its argument
    la = [a for a in acquisitions(lock) if a.kind == "mutex"]
    run.check(len(la) == 1, "lock_relations-locks", "lock_relations acquires the relations mutex", "lock_relations does not lock", lock.where())
    for nm in ("join_scoped", "monitor", "monitor_scope"):
        f = pg_fn(db, nm)
        run.saw(len(f.blocks), f)
        locks = [c for c in f.calls() if c.callee == lock.id]
        run.check(len(locks) == 1, nm + "|lock", "one lock_relations call", "%d lock_relations calls" % len(locks), f.where())
        if not locks:
            continue
        lk = locks[0]
        # guard liveness: the MutexGuard local returned
        g = lk.dest[0]
        rel_drops = [s for s, t in f.drops() if t["p"][0] == g and not t["p"][1]] + [c.site for c in f.calls() if c.matches(r"mem::drop$") and op_place(c.args[0]) and op_place(c.args[0])[0] == g]
        held = f.reach(Site(lk.target, 0), no_sites=rel_drops)
        sts = [s for s in status_tests(f) if any(r["k"] == "call" and r["call"].is_("get_status") for r in s["subject"])]
        def gate_for(site):
            for s in sts:
                if not (s["true_edge"] and f.edge_dominates(s["true_edge"], site)):
                    continue
                # status read after the lock, while held
                reads = [r["call"] for r in s["subject"] if r["k"] == "call"]
                if not all(f.dominates(lk.site, rd.site) and rd.site in held for rd in reads):
                    continue
                excl = not status_sat(s["op"], s["const"], "Stopping") and not status_sat(s["op"], s["const"], "Stopped")
                return s, excl
            return None, False
        ins = []
        for c in f.calls():
            if c.matches(r"HashSet::<T, S, A>::insert$") and set(field_names(f, c.args[0])) & set(rel["sets"]):
                ins.append(("relation set", c))
            if c.matches(r"Vec::<T, A>::push$") and (gs["listeners"] in field_names(f, c.args[0]) or "ActorCell" in " ".join(c.gargs) and nm != "join_scoped"):
                ins.append(("listener vector", c))
            if nm == "join_scoped" and c.matches(r"HashSet::<T, S, A>::insert$") and not (set(field_names(f, c.args[0])) & set(rel["sets"])):
                # the accepted set: the one later consulted with contains() to build `joined`
                if any(r["k"] == "call" and r["call"].matches(r"HashSet::<T>::with_capacity") for r in f.origins(c.args[0])):
                    ins.append(("local set", c))
        floor = {"join_scoped": 2, "monitor": 2, "monitor_scope": 2}[nm]
        gated = 0
        for what, c in ins:
            s, excl = gate_for(c.site)
            if what == "local set" and s is None:
                continue    # the `processed` de-duplication set
            gated += 1
            run.check(s is not None and c.site in held, "%s|%s-under-lock-and-gate@%s" % (nm, what, c.name.split("::")[-1]),
                      "%s insertion is dominated by lock_relations() and by a status test read under the lock" % what,
                      "%s insertion in %s is not behind a status test read under the relations lock: an exiting actor can be added after its own cleanup" % (what, nm), c.where())
            if s is not None:
                run.check(excl, "%s|%s-gate-excludes-stopping" % (nm, what), "the gate `status %s %s` is false for Stopping and Stopped" % (s["op"], s["const"]),
                          "the gate `status %s %s` admits an actor that is already Stopping: it is inserted after leave_all/demonitor_all drained its relations and is never removed" % (s["op"], s["const"]), c.where())
        run.anchor(nm + " gated insertions", gated, floor, f.where())
    # join: members inserted only for accepted actors
    f = pg_fn(db, "join_scoped")
    mi = [c for c in f.calls() if c.matches(r"HashMap::<K, V, S, A>::insert$") and gs["members"] in field_names(f, c.args[0])]
    run.anchor("join member insertion", len(mi), 1)
    flt = [ch for ch in db.children(f.id) if any(c.matches(r"HashSet::<T, S, A>::contains$") for c in ch.calls())]
    run.check(len(flt) >= 1, "join|joined=accepted", "the members inserted are filtered by membership in the accepted set", "members are inserted without consulting the accepted set", f.where())


def r2(run, db):
    c06.r5(run, db)
    # demonitor_all / leave_all take the relation sets under the lock (mem::take) so later inserts are visible to nobody
    gs, rel = pg_fields(db)
    for nm in ("leave_all", "demonitor_all"):
        f = pg_fn(db, nm)
        tk = [c for c in f.calls() if c.matches(r"mem::take$") and set(field_names(f, c.args[0])) & set(rel["sets"])]
        lock = [c for c in f.calls() if c.callee == "ractor::pg::lock_relations"]
        run.check(len(tk) >= 1 and lock and all(f.dominates(lock[0].site, c.site) for c in tk), nm + "|drain-under-lock", "%s takes the reverse index (mem::take) under the relations lock" % nm, "%s does not drain the reverse index under the lock" % nm, f.where())


def r3(run, db):
    gs, rel = pg_fields(db)
    rm_idx = run.need(db.fn("ractor::pg::remove_group_from_index"), "remove_group_from_index")
    add_idx = run.need(db.fn("ractor::pg::add_group_to_index"), "add_group_to_index")
    n = 0
    for nm in ("leave_scoped", "leave_all"):
        f = pg_fn(db, nm)
        run.saw(len(f.blocks), f)
        rem = [c for c in f.calls() if c.matches(r"HashMap::<K, V, S, A>::remove$") and gs["members"] in field_names(f, c.args[0])]
        emp = [c for c in f.calls() if c.matches(r"HashMap::<K, V, S, A>::is_empty$") and gs["members"] in field_names(f, c.args[0])]
        lemp = [c for c in f.calls() if c.matches(r"Vec::<T, A>::is_empty$") and gs["listeners"] in field_names(f, c.args[0])]
        idx = [c for c in f.calls() if c.callee == rm_idx.id]
        er = [c for c in f.calls() if c.matches(r"OccupiedEntry::<'a, K, V>::remove$|OccupiedEntry::<'a, K, V>::remove_entry$")]
        run.check(len(rem) == 1 and len(emp) == 1 and len(idx) == 1, nm + "|shape", "member removal, emptiness test and index removal present", "%s: %d member removals, %d emptiness tests, %d index removals" % (nm, len(rem), len(emp), len(idx)), f.where())
        if not (rem and emp and idx):
            continue
        n += 1
        te = true_edge(f, emp[0])
        # every path from the "members empty" edge reaches remove_group_from_index before leaving the entry scope / iterating again
        stops = f.exits() + [rem[0].site]
        run.check(te is not None and f.must_pass(Site(te[1], 0), [idx[0].site], to_sites=stops), nm + "|empty->index-removed",
                  "whenever the last member left, the group is removed from the scope index (on every path)",
                  "the group can become empty without being removed from the scope index (e.g. only when it also has no listeners): which_scoped_groups lists a group without members", idx[0].where())
        run.check(f.reaches_after(rem[0].site, emp[0].site), nm + "|test-after-removal", "emptiness is tested after the removal", None, f.where())
        for c in er:
            le = [true_edge(f, x) for x in lemp]
            good = te is not None and f.edge_dominates(te, c.site) and any(e and f.edge_dominates(e, c.site) for e in le)
            run.check(good, nm + "|entry-removed-iff-both-empty", "the map entry is removed only when members and listeners are both empty", "map entry removed while members or listeners remain", c.where())
        if nm == "leave_all":
            # one Leave per key, only when the actor was actually removed (Some edge)
            se = nested_variant_edge(f, rem[0], ["Some"])
            if se is None:
                # `members.remove(&actor)?`: the continue edge of the `?` is the Some edge
                tb = [b for b in try_branches_on(f, rem[0]) if b.get("cont_edge")]
                if len(tb) == 1:
                    se = tb[0]["cont_edge"]
            push = [c for c in f.calls() if c.matches(r"Vec::<T, A>::push$")]
            run.check(se is not None and len(push) == 1 and f.edge_dominates(se, push[0].site), nm + "|leave-only-if-member", "a Leave is recorded only on the Some edge of the member removal (one per group the actor was still in)", "Leave recorded although the actor was not a member", f.where())
    run.anchor("member-removing bodies", n, 2)
    f = pg_fn(db, "join_scoped")
    ad = [c for c in f.calls() if c.callee == add_idx.id]
    mi = [c for c in f.calls() if c.matches(r"HashMap::<K, V, S, A>::insert$") and gs["members"] in field_names(f, c.args[0])]
    run.check(len(ad) == 1, "join|index-add", "join adds the group to the scope index", "join has %d add_group_to_index calls" % len(ad), f.where())
    if ad:
        je = [c for c in f.calls() if c.matches(r"Vec::<T, A>::is_empty$") and f.reaches_after(c.site, ad[0].site)]
        good = False
        for c in je:
            fe = false_edge(f, c)
            if fe and f.must_pass(Site(fe[1], 0), [ad[0].site]):
                good = True
        run.check(good, "join|nonempty->index-add", "whenever somebody joined, the index is updated on every path", "a join can add members without indexing the group", ad[0].where())
    # index helpers really write the index field
    for g, meth in ((add_idx, r"HashSet::<T, S, A>::insert$"), (rm_idx, r"HashSet::<T, S, A>::remove$")):
        cs = [c for c in g.calls() if c.matches(meth)]
        run.check(len(cs) == 1, "index-helper:%s" % g.id.split("::")[-1], "%s updates the index set" % g.id.split("::")[-1], "%s does not update the index set" % g.id, g.where())
    er = [c for c in rm_idx.calls() if c.matches(r"OccupiedEntry::<'a, K, V>::remove$")]
    ie = [c for c in rm_idx.calls() if c.matches(r"HashSet::<T, S, A>::is_empty$")]
    run.check(len(er) == 1 and len(ie) == 1 and true_edge(rm_idx, ie[0]) and rm_idx.edge_dominates(true_edge(rm_idx, ie[0]), er[0].site), "index-scope-removed-when-empty", "a scope with no groups is removed from the index", None, rm_idx.where())


def r4(run, db):
    acc = []
    for f in db.crate_fns("ractor"):
        for site, s in f.stmts():
            if s["k"] == "assign" and s["rv"]["k"] == "use" and (s["rv"]["op"].get("static") or "").startswith("ractor::pg::"):
                acc.append(f)
                run.check(f.id.startswith("ractor::pg::"), "static-in-pg:%s" % f.id, "pg state static referenced in %s" % f.id, "pg state static referenced outside pg: %s" % f.id, f.where(s.get("l")))
    run.anchor("pg static references", len(acc), 1)
    gm = db.fn("ractor::pg::get_monitor")
    if gm:
        cs = db.calls_of(gm.id)
        run.anchor("get_monitor callers", len(cs), 10)
        for c in cs:
            run.check(c.fn.id.startswith("ractor::pg::"), "accessor-caller:%s" % c.fn.id, "%s is in pg" % c.fn.id, "%s outside pg obtains the pg state" % c.fn.id, c.where())
    run.check(gm is not None and gm.raw.get("vis") != "Public", "accessor-private", "get_monitor is private", "get_monitor is public")


def r5(run, db):
    n = 0
    for f in db.crate_fns("ractor"):
        if not f.id.startswith("ractor::pg::"):
            continue
        acqs = [a for a in acquisitions(f) if a.kind.startswith("dashmap") and not a.transient]
        sends = [c for c in f.calls() if c.is_("ActorCell::send_supervisor_evt") or c.callee == "ractor::pg::notify_world_listeners"]
        for c in sends:
            n += 1
            held = [a for a in acqs if c.site in a.held]
            run.check(not held, "notify-outside-guard:%s" % f.id, "%s notifies after its DashMap guards are released" % f.id, "%s sends a notification while holding %s" % (f.id, [a.lock_ids for a in held]), c.where())
    run.anchor("pg notification sites", n, 5)
    c06.r7(run, db)


def r6(run, db):
    gs, rel = pg_fields(db)
    for nm in ("which_groups", "which_scopes", "which_scopes_and_groups"):
        f = pg_fn(db, nm)
        ok = False
        for ch in db.children(f.id):
            ie = [c for c in ch.calls() if c.matches(r"HashMap::<K, V, S, A>::is_empty$") and gs["members"] in field_names(ch, c.args[0])]
            if ie:
                # closure returns !is_empty
                neg = any(s["k"] == "assign" and s["rv"]["k"] == "un" and s["rv"]["op"] == "Not" for _, s in ch.stmts())
                ok = neg
        flt = [c for c in f.calls() if c.matches(r"Iterator::filter$")]
        run.check(ok and len(flt) == 1, nm + "|filters-nonempty", "%s lists only groups with members" % nm, "%s does not filter on non-empty members" % nm, f.where())
    f = pg_fn(db, "which_scoped_groups")
    g = [c for c in f.calls() if c.matches(r"DashMap::<K, V, S>::get$")]
    run.check(len(g) == 1 and "index" in field_names(f, g[0].args[0]) or len(g) == 1, "which_scoped_groups|reads-index", "which_scoped_groups reads the scope index", None, f.where())


def entry_removals(db):
    """(fn, call, value type) of every DashMap entry/key removal in ractor::pg"""
    out = []
    for f in db.crate_fns("ractor"):
        if not f.id.startswith("ractor::pg::") or "::tests::" in f.id:
            continue
        for c in f.calls():
            if c.matches(r"OccupiedEntry::<'a, K, V>::(remove|remove_entry)$|DashMap::<K, V, S>::(remove|remove_if|remove_if_mut|retain|clear)$"):
                p = op_place(c.args[0])
                ty = place_ty(db, f, p) if p else ""
                if not ty and p:
                    ty = f.local_ty(p[0])
                out.append((f, c, ty or ""))
    return out


def r7(run, db):
    """a group's map entry (members + listeners) may disappear only when it is empty: whoever removes it has just seen both
    the member map and the listener vector of that very entry empty (C11-4: a refused join deleted a populated group)"""
    gs, rel = pg_fields(db)
    ng = nw = 0
    for f, c, ty in entry_removals(db):
        if "GroupState" in ty:
            ng += 1
            me = [x for x in f.calls() if x.matches(r"HashMap::<K, V, S, A>::is_empty$") and gs["members"] in field_names(f, x.args[0])]
            le = [x for x in f.calls() if x.matches(r"Vec::<T, A>::is_empty$") and gs["listeners"] in field_names(f, x.args[0])]
            okm = any(true_edge(f, x) and f.edge_dominates(true_edge(f, x), c.site) for x in me)
            okl = any(true_edge(f, x) and f.edge_dominates(true_edge(f, x), c.site) for x in le)
            run.check(okm and okl and c.matches(r"OccupiedEntry"), "group-entry-removed-only-empty:%s" % f.id.split("::")[-1],
                      "%s removes the group entry only after seeing members and listeners empty (under the entry guard)" % f.id.split("::")[-1],
                      "%s removes a group's map entry without having seen %s empty: live members (or monitors) of the group vanish from every view without any Leave" % (
                          f.id.split("::")[-1], " and ".join(w for w, k in (("members", okm), ("listeners", okl)) if not k) or "them (not through the held entry)"), c.where())
        elif re.search(r"Vec<ractor::actor::actor_cell::ActorCell>", ty) and "ActorId" not in ty.split("Vec<")[0][-40:]:
            nw += 1
            le = [x for x in f.calls() if x.matches(r"Vec::<T, A>::is_empty$")]
            ok = any(true_edge(f, x) and f.edge_dominates(true_edge(f, x), c.site) for x in le)
            run.check(ok and c.matches(r"OccupiedEntry"), "world-entry-removed-only-empty:%s" % f.id.split("::")[-1], "%s removes a scope-monitor entry only when its listener vector is empty" % f.id.split("::")[-1],
                      "%s removes a scope-monitor entry that may still hold listeners" % f.id.split("::")[-1], c.where())
    run.anchor("group entry removals", ng, 6)
    run.anchor("scope-monitor entry removals", nw, 3)


def r8(run, db):
    """the reverse index (actor -> its relations) loses an entry only through remove_empty_actor_relations, which re-checks
    emptiness under the relations lock and pointer identity, and which is invoked only for actors that are past Draining
    (C11-3: dropping the record of a live actor orphans a membership a concurrent join is about to write into it)"""
    helper = run.need(db.fn("ractor::pg::remove_empty_actor_relations"), "pg::remove_empty_actor_relations")
    n = 0
    for f, c, ty in entry_removals(db):
        if "ActorRelations" not in ty:
            continue
        n += 1
        run.check(f.id == helper.id, "reverse-index-removal-in:%s" % f.id.split("::")[-1], "the reverse index is shrunk only by remove_empty_actor_relations",
                  "%s removes an actor's record from the reverse index itself: for a live actor a concurrent join/monitor may hold that record and add a relationship to it after it became unreachable, so the exit cleanup never finds it" % f.id, c.where())
        if f.id == helper.id:
            ie = [x for x in f.calls() if x.callee and x.callee.endswith("ActorRelations::is_empty")]
            pe = [x for x in f.calls() if x.matches(r"Arc::<T, A>::ptr_eq$")]
            lk = [x for x in f.calls() if x.callee == "ractor::pg::lock_relations"]
            ok = bool(ie and pe and lk) and f.edge_dominates(true_edge(f, ie[0]), c.site) and f.edge_dominates(true_edge(f, pe[0]), c.site) and f.dominates(lk[0].site, ie[0].site)
            run.check(ok, "helper|empty-under-lock-and-same-arc", "the helper removes only an empty record (tested under its lock) that is the very Arc the caller holds", "helper guard changed", c.where())
    run.anchor("reverse index removals", n, 1)
    # call sites
    exit_path = {"ractor::pg::leave_all", "ractor::pg::demonitor_all"}
    cs = db.calls_of(helper.id)
    run.anchor("remove_empty_actor_relations call sites", len(cs), 4)
    for c in cs:
        f = c.fn
        nm = f.id.split("::")[-1]
        if f.id in exit_path:
            run.ok("helper-caller:%s|exit-path" % nm, "%s runs on the exit path only (C06.R5: after Stopping was published)" % nm, c.where())
            continue
        sts = [s for s in status_tests(f) if any(r["k"] == "call" and r["call"].is_("get_status") for r in s["subject"])]
        def past_draining(site):
            for s in sts:
                for edge, pol in ((s["true_edge"], True), (s["false_edge"], False)):
                    if edge and f.edge_dominates(edge, site):
                        sat = [v for v in ("Unstarted", "Starting", "Running", "Upgrading", "Draining") if status_sat(s["op"], s["const"], v) == pol]
                        if not sat:
                            return True
            return False
        if past_draining(c.site):
            run.ok("helper-caller:%s|status-gated" % nm, "%s calls the helper only on a status edge that excludes Unstarted..Draining" % nm, c.where())
            continue
        # join_scoped: the (id, relations) pairs handed to the helper are collected only on such an edge
        pushes = [x for x in f.calls() if x.matches(r"Vec::<T, A>::push$") and "ActorRelations" in " ".join(x.gargs)]
        good = bool(pushes) and all(past_draining(x.site) for x in pushes) and f.in_cycle(c.site)
        run.check(good, "helper-caller:%s|collected-on-stopped-edge" % nm, "%s hands the helper only records collected on a status edge that excludes Unstarted..Draining" % nm,
                  "%s drops reverse-index records of actors that may still be live" % f.id, c.where())


def r9(run, db):
    """membership getters agree with the membership set: they read the members map of exactly the (scope, group) asked
    for and return all of it (the local variants: all of it that is local) -- no other filter, cap or source"""
    gs, rel = pg_fields(db)
    OWN = lambda cc: 0 if cc.matches(r"ToOwned>::to_owned$|ToOwned::to_owned$|Clone>::clone$|Clone::clone$|Deref>::deref$") else None
    for nm, local in (("get_scoped_members", False), ("get_scoped_local_members", True)):
        f = pg_fn(db, nm)
        run.saw(len(f.blocks), f)
        gets = [c for c in f.calls() if c.matches(r"DashMap::<K, V, S>::get$")]
        run.check(len(gets) == 1, nm + "|one-lookup", "one lookup in the forward map", "%d lookups" % len(gets), f.where())
        if not gets:
            continue
        g = gets[0]
        # the key: ScopeGroupKey{scope: param1, group: param2}
        okk = False
        for r in f.origins(g.args[1]):
            if r["k"] == "agg" and (r["stmt"]["rv"].get("adt") or "").endswith("ScopeGroupKey"):
                vals = dict(zip(r["stmt"]["rv"]["fields"], r["stmt"]["rv"]["ops"]))
                a = [x for x in f.origins(vals.get("scope"), through=OWN)] if "scope" in vals else []
                b = [x for x in f.origins(vals.get("group"), through=OWN)] if "group" in vals else []
                okk = bool(a) and bool(b) and all(x["k"] == "arg" and x["local"] == 1 for x in a) and all(x["k"] == "arg" and x["local"] == 2 for x in b)
        run.check(okk, nm + "|key-from-params", "the key looked up is (scope parameter, group parameter)", "the key looked up is not built from the function's scope and group parameters", g.where())
        # the result on the Some edge: collect(cloned([filter(is_local)](members.values())))
        chain = []
        roots = f.origins([0, []], through=lambda cc: (chain.append(cc.name.split("::")[-1]) or 0) if cc.matches(r"Iterator::(collect|cloned|copied|filter|map)$") else None)
        srcs = [r for r in roots if r["k"] == "call" and r["call"].matches(r"HashMap::<K, V, S, A>::values$")]
        others = [r for r in roots if not (r["k"] == "call" and (r["call"].matches(r"HashMap::<K, V, S, A>::values$") or r["call"].matches(r"Vec::<T>::new$|vec::from_elem$")))]
        oks = len(srcs) == 1 and gs["members"] in field_names(f, srcs[0]["call"].args[0]) and not others
        run.check(oks, nm + "|source=members.values", "the answer is built from members.values() of the entry found (or is empty when there is no entry)",
                  "the answer has another source: %s" % [r["call"].name if r["k"] == "call" else r["k"] for r in others], f.where())
        # the values() receiver comes from the looked-up entry
        if srcs:
            via = f.origins(srcs[0]["call"].args[0], through=lambda cc: 0 if cc.matches(r"Ref::<'a, K, V>::value$|Deref>::deref$") else None)
            run.check(any(r["k"] == "call" and r["call"].bb == g.bb for r in via), nm + "|of-that-entry", "members of the entry that was looked up", "members of another entry", f.where())
        flt = [c for c in f.calls() if c.matches(r"Iterator::(filter|filter_map|take|skip|take_while|skip_while|step_by)$")]
        if not local:
            run.check(not flt, nm + "|unfiltered", "no member is filtered out", "get_scoped_members filters its answer (%s)" % [c.name.split("::")[-1] for c in flt], f.where())
        else:
            okf = len(flt) == 1 and flt[0].matches(r"Iterator::filter$")
            pred = None
            if okf:
                for r in f.origins(flt[0].args[1]):
                    if r["k"] == "agg":
                        pred = db.fns.get(r["stmt"]["rv"].get("def"))
            okp = False
            if pred is not None:
                cs = pred.calls()
                il = [c for c in cs if c.matches(r"ActorId::is_local$")]
                ret = pred.origins([0, []])
                okp = len(il) == 1 and all(r["k"] == "call" and r["call"].bb == il[0].bb for r in ret) and not pred.switches() and all(c.matches(r"ActorId::is_local$|ActorCell::get_id$|Deref") for c in cs)
            run.check(okf and okp, nm + "|filter=is_local", "the only filter is `get_id().is_local()`", "the local-members filter is not exactly is_local()", f.where())
    for nm, target in (("get_members", "get_scoped_members"), ("get_local_members", "get_scoped_local_members")):
        f = pg_fn(db, nm)
        cs = [c for c in f.calls() if c.callee == "ractor::pg::" + target]
        okd = len(cs) == 1 and all(r["k"] == "call" and r["call"].bb == cs[0].bb for r in f.origins([0, []]))
        okg = bool(cs) and all(x["k"] == "arg" and x["local"] == 1 for x in f.origins(cs[0].args[1], through=OWN))
        oksc = bool(cs) and all(x["k"] == "const" for x in f.origins(cs[0].args[0], through=OWN))
        run.check(okd and okg and oksc, nm + "|delegates", "%s = %s(DEFAULT_SCOPE, group)" % (nm, target), "%s does not simply delegate to %s with the default scope and its group parameter" % (nm, target), f.where())


def r10(run, db):
    """`to every actor monitoring that group, its scope or all scopes *at that time*`: the set of listeners to tell is part of
    the linearization point of the membership change.  The per-group listeners are cloned while the group's map entry is held;
    the scope / all-scopes listeners must be read in the same critical section.  Read later, a monitor_scope that happens
    after the change became visible is told about it, and a demonitor_scope after it is not."""
    gs, rel = pg_fields(db)
    def reads_world(fn):
        out = []
        for c in fn.calls():
            if c.matches(r"DashMap::<K, V, S>::(get|iter|get_mut)$"):
                ids = lock_identity(fn, c.args[0]) if False else None
                p = op_place(c.args[0])
                ty = ""
                for r in fn.origins(c.args[0]):
                    for e in r.get("proj", []) + r.get("trail", []):
                        n = proj_field_name(e) if e.startswith("f:") else None
                        if n == WL:
                            out.append(c)
        return out
    # the world-listener field of PgState: DashMap<ScopeGroupKey, Vec<ActorCell>>
    WL = None
    for k, a in db.adts.items():
        if k.startswith("ractor::pg::") and a["variants"]:
            for fld in a["variants"][0]["fields"]:
                if re.search(r"DashMap<ractor::pg::ScopeGroupKey, std::vec::Vec<ractor::actor::actor_cell::ActorCell>", fld["ty"]):
                    WL = fld["name"]
    if WL is None:
        raise AnchorLost("pg world-listener map (by type)")
    readers = {f.id: f for f in db.crate_fns("ractor") if f.id.startswith("ractor::pg::") and "::tests::" not in f.id and reads_world(f)}
    n = 0
    for nm in ("join_scoped", "leave_scoped", "leave_all"):
        f = pg_fn(db, nm)
        acqs = [a for a in acquisitions(f) if a.kind == "dashmap:entry" and not a.transient and any("map" in i for i in a.lock_ids)]
        # the critical section that changes membership: the one in which members are inserted / removed
        mem = [c for c in f.calls() if c.matches(r"HashMap::<K, V, S, A>::(insert|remove)$") and gs["members"] in field_names(f, c.args[0])]
        crit = [a for a in acqs if any(c.site in a.held for c in mem)]
        run.check(len(crit) >= 1, nm + "|membership-critical-section", "the membership change happens under the group's map entry", "membership change not under an entry guard", f.where())
        sites = [c for c in reads_world(f)] + [c for c in f.calls() if (c.callee in readers or c.resolved in readers)]
        run.anchor(nm + " world-listener reads", len(sites), 1, f.where())
        for c in sites:
            n += 1
            inside = any(c.site in a.held for a in crit)
            run.check(inside, nm + "|world-listeners-snapshot-under-entry", "the scope / all-scopes listeners are read inside the critical section of the membership change",
                      "%s reads the scope / all-scopes listeners (%s) after the group entry was released: the membership change is already visible, so who is told depends on monitor_scope / demonitor_scope calls that happen after it" % (nm, c.name.split("::")[-1]), c.where())
    run.anchor("world-listener read sites", n, 3)
    # per-group listeners: the list used for the notification is the clone taken inside the critical section; the three
    # functions (and their closures) never look the group up again afterwards
    for nm in ("join_scoped", "leave_scoped", "leave_all"):
        f = pg_fn(db, nm)
        acqs = [a for a in acquisitions(f) if a.kind == "dashmap:entry" and not a.transient and any("map" in i for i in a.lock_ids)]
        mem = [c for c in f.calls() if c.matches(r"HashMap::<K, V, S, A>::(insert|remove)$") and gs["members"] in field_names(f, c.args[0])]
        crit = [a for a in acqs if any(c.site in a.held for c in mem)]
        late = []
        for g in db.family(f.id):
            for c in g.calls():
                if c.matches(r"DashMap::<K, V, S>::(get|get_mut|iter|iter_mut)$"):
                    ids = " ".join(__import__("rules.locks", fromlist=["lock_identity"]).lock_identity(g, c.args[0]))
                    if re.search(r"\.map$|\.map\b", ids) and "world" not in ids:
                        late.append(c)
        run.check(not late, nm + "|group-listeners-snapshot-under-entry", "%s takes the group's listeners only inside the critical section (no later lookup of the group)" % nm,
                  "%s looks the group up again (%s) after the membership change: the per-group listeners are then whoever monitors at send time, not at the time of the change" % (nm, [c.fn.id.split("::")[-1] for c in late]), (late[0].where() if late else f.where()))


Q = ["dflt"]
TH = ["dflt", "rc", "atr", "astd"]
RULES = [{"id": "C11.R%d" % i, "fn": f, "quick": Q, "thorough": TH} for i, f in enumerate([r1, r2, r3, r4, r5, r6, r7, r8, r9, r10], 1)]

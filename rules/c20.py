"""C20 -- Remote actors behave like the actors they stand for (structural clauses)."""
import re
from .model import *
from .facts import Site, op_place, Call, proj_field_name
from .bits import sym, show
from .c17 import RC, msg_variant_edges
from .futflow import ROOT_RX
from .fields import fields

EXPLANATION = ("decides necessary structural conditions only (tag/identity dataflow equalities on both ends): in the proxy, the tag placed in the outgoing "
               "Call and the key under which the caller's reply port is stored are the same fresh tag, the fresh tag is previous+1 on a counter that nothing "
               "else writes (so a tag is never reused while an abandoned request may still be answered), a failed forward removes that key and a CallReply "
               "removes by the tag it carries and answers on the removed (affine) port; in the receiving session, the tag and target of the Reply are those "
               "of the Call, the payload/variant/metadata flow unchanged into the local send, and both casts and calls are handed to the local actor inline "
               "in frame order (no task spawn on the delivery path; the only spawned task waits for a reply); proxies are created only by the get-or-spawn "
               "helper, as linked children of the session, removed and stopped on Terminate; PgJoin/PgLeave pass the frame's scope and group unchanged with "
               "cells drawn from the proxy map. NOT decided: end-to-end behaviour over two nodes, delays, loss at byte offsets.")
TRUSTED = ["FIFO mailboxes (C02) and one ordered byte stream per session", "C05: proxies linked under the session stop with it"]
ASSUMPTIONS = ["two-node interleavings are not enumerated"]

DOC = {
 "C20.R1": "proxy: outgoing Call tag == key of the stored reply port == fresh tag; counter written only by the fresh-tag function (+ constructor) as previous+1; failed forward removes that key; CallReply removes by its tag and sends its data on the removed port",
 "C20.R2": "session: Reply{tag,to} originate from the Call's tag/to; what/variant/metadata flow unchanged into SerializedMessage; a Reply frame goes to the proxy stored under `to` with the frame's tag and payload",
 "C20.R3": "proxies are spawned only in get_or_spawn_remote_actor, which is called only on the Spawn / PgJoin edges of the control-frame match (Terminate and PgLeave only look up), supervised by the session's own cell, inserted under the pid they were asked for; Terminate removes and stops them",
 "C20.R4": "PgJoin / PgLeave: scope and group of the frame flow unchanged into join_scoped / leave_scoped; cells come from get_or_spawn / the proxy map",
 "C20.R6": "= C19.R2 (framing): every read of a frame payload is bounded by min(len - buf.len(), chunk) computed inside the loop",
 "C20.R7": "every control_protocol::Actor built from a local cell is behind supports_remoting() (filter upstream of the map, or the true edge for single cells): Join, Leave, the post-auth scans and the pid events agree",
 "C20.R8": "error discipline: no NodeSession handler propagates (`?`) the result of stop_and_wait / kill_and_wait / drain_and_wait on a proxy (a proxy that is already gone must not fail the session)",
 "C20.R9": "the future of read_network_message is awaited directly, never through timeout/select (the reader is not cancellation safe)",
 "C20.R10": "after_authenticated: no Spawn / PgJoin frame is sent after the Ready frame",
 "C20.R11": "subscribe-then-snapshot: in after_authenticated the pid-registry enumeration is dominated by pid_registry::monitor and the process-group enumeration by pg::monitor and pg::monitor_scope (an actor appearing concurrently is in the snapshot or announced by an event, never in neither)",
 "C20.R5": "delivery path is inline: every send_serialized of handle_node is executed in handle_node itself (none inside a spawned task); the proxy's handle_serialized and the session's send path spawn nothing",
}


def names_of(fn, op, through=None):
    out = []
    for r in fn.origins(op, through=through):
        out += [proj_field_name(e) for e in r.get("proj", []) + r.get("trail", []) if e.startswith("f:")]
    return out


def r1(run, db):
    hs = [f for f in db.crate_fns(RC) if re.search(r"RemoteActor as ractor::Actor>::handle_serialized::\{closure#0\}$", f.id)]
    run.anchor("proxy handle_serialized", len(hs), 1)
    f = hs[0]
    run.saw(len(f.blocks), f)
    ft = [c for c in f.calls() if c.callee and c.callee.endswith("::get_and_increment_mtag")]
    run.check(len(ft) == 1 and not f.in_cycle(ft[0].site), "one-fresh-tag", "one fresh tag per outgoing call", "%d fresh-tag calls" % len(ft), f.where())
    calls = [(site, s) for site, s in f.aggregates(adt="Call") if "tag" in s["rv"]["fields"]]
    ins = [c for c in f.calls() if c.matches(r"BTreeMap::<K, V, A>::insert$|HashMap::<K, V, S, A>::insert$")]
    run.check(len(calls) == 1 and len(ins) == 1, "shape", "one Call frame built, one pending-request insertion", "proxy shape: %d Call frames, %d insertions" % (len(calls), len(ins)), f.where())
    if ft and calls and ins:
        tag_op = dict(zip(calls[0][1]["rv"]["fields"], calls[0][1]["rv"]["ops"]))["tag"]
        a = any(r["k"] == "call" and r["call"].bb == ft[0].bb for r in f.origins(tag_op))
        b = any(r["k"] == "call" and r["call"].bb == ft[0].bb for r in f.origins(ins[0].args[1]))
        run.check(a and b, "same-tag", "the tag sent in the Call frame and the key of the stored reply port are the same fresh tag", "frame tag and stored key differ in origin", f.where())
        # stored port is the caller's reply port of this message
        okp = any("reply" in [proj_field_name(e) for e in r.get("proj", []) if e.startswith("f:")] or r["k"] == "upvar" or r["k"] == "arg" for r in f.origins(ins[0].args[2]))
        run.check(okp, "stores-callers-port", "the port stored is the reply port carried by the serialized Call", None, ins[0].where())
        to_op = dict(zip(calls[0][1]["rv"]["fields"], calls[0][1]["rv"]["ops"]))["to"]
        okto = any(r["k"] == "call" and r["call"].matches(r"ActorId::pid$") for r in f.origins(to_op))
        run.check(okto, "to-is-own-pid", "the frame is addressed to the pid this proxy stands for", None, f.where())
        for fld in ("what", "variant", "metadata"):
            o = dict(zip(calls[0][1]["rv"]["fields"], calls[0][1]["rv"]["ops"]))[fld]
            rts = f.origins(o)
            okf = bool(rts) and all(r["k"] in ("upvar", "arg") for r in rts)
            run.check(okf, "call-%s-unchanged" % fld, "Call.%s is the serialized message's field, unmodified" % fld, "Call.%s is computed (%s)" % (fld, [r["k"] for r in rts]), f.where())
    # failed forward removes the key
    rm = [c for c in f.calls() if c.callee and c.callee.endswith("::remove_pending_request")]
    run.anchor("remove_pending_request calls", len(rm), 2, f.where())
    fwd_fail = [c for c in rm if ft and any(r["k"] == "call" and r["call"].bb == ft[0].bb for r in f.origins(c.args[1]))]
    ie = [c for c in f.calls() if c.matches(r"Result::<T, E>::is_err$")]
    run.check(len(fwd_fail) == 1 and any(true_edge(f, c) and f.edge_dominates(true_edge(f, c), fwd_fail[0].site) for c in ie), "failed-forward-releases", "a failed forward removes the entry stored under that same tag", "failed forward does not release the stored port", f.where())
    # CallReply
    reply = [c for c in rm if c not in fwd_fail]
    snd = [c for c in f.calls() if c.matches(r"RpcReplyPort::<TMsg>::send$")]
    if reply and snd:
        okk = all(r["k"] in ("upvar", "arg") for r in f.origins(reply[0].args[1]))
        okport = any(r["k"] == "call" and r["call"].bb == reply[0].bb for r in f.origins(snd[0].args[0]))
        okdata = all(r["k"] in ("upvar", "arg") for r in f.origins(snd[0].args[1]))
        run.check(okk and okport and okdata, "reply-by-tag", "CallReply(tag, data): the port removed under `tag` is answered with `data`", "reply routing changed", snd[0].where())
        se = nested_variant_edge(f, reply[0], ["Some"])
        run.check(se is not None and f.edge_dominates(se, snd[0].site) and not f.in_cycle(snd[0].site), "reply-once", "one send on the removed port", None, snd[0].where())
    # counter discipline
    writers = []
    for g in db.crate_fns(RC):
        for site, s in g.stmts():
            if s["k"] == "assign" and fields(db).ra_tag in [proj_field_name(e) for e in s["lhs"][1] if e.startswith("f:")]:
                writers.append((g, site, s))
    run.check(len(writers) == 1 and writers[0][0].id.endswith("::get_and_increment_mtag"), "tag-counter-single-writer", "the tag counter is written only by get_and_increment_mtag",
              "the tag counter is also written in %s: a tag can be reused while an abandoned request is still in flight, and its late reply reaches another caller" % sorted(set(w[0].id.split("::")[-1] for w in writers if not w[0].id.endswith("::get_and_increment_mtag"))))
    for g, site, s in writers:
        if g.id.endswith("::get_and_increment_mtag"):
            v = sym(g, s["rv"]["op"]) if s["rv"]["k"] == "use" else None
            okv = v is not None and v[0] == "bin" and v[1] == "Add" and v[3] == ("c", 1)
            run.check(okv, "tag=prev+1", "fresh tag = previous + 1", "fresh tag is %s" % (show(v) if v else "?"), g.where(s.get("l")))
            ret = g.origins([0, []])
            okr = any(fields(db).ra_tag in [proj_field_name(e) for e in r.get("proj", []) if e.startswith("f:")] for r in ret)
            run.check(okr, "returns-new-tag", "the function returns the counter after the increment", None, g.where())
    for g in db.crate_fns(RC):
        for site, s in g.aggregates(adt="RemoteActorState"):
            v = dict(zip(s["rv"]["fields"], s["rv"]["ops"])).get(fields(db).ra_tag)
            run.check(v is not None and sym(g, v) == ("c", 0), "tag-init", "a new proxy starts at tag 0", None, g.where(s.get("l")))


def r2(run, db):
    hn = [f for f in db.crate_fns(RC) if f.id.endswith("NodeSession::handle_node")]
    run.anchor("handle_node", len(hn), 1)
    f = hn[0]
    run.saw(len(f.blocks), f)
    # serialized messages built
    n = 0
    for site, s in f.aggregates(adt="SerializedMessage"):
        v = s["rv"]["variant"]
        vals = dict(zip(s["rv"]["fields"], s["rv"]["ops"]))
        edges = msg_variant_edges(f, site)
        n += 1
        if v in ("Cast", "Call"):
            run.check(edges == {v}, "arm:%s@%d" % (v, site.bb), "SerializedMessage::%s is built in the %s arm" % (v, v), "SerializedMessage::%s built in arm %s" % (v, sorted(edges)), f.where(s.get("l")))
            for fld, src in (("args", "what"), ("variant", "variant"), ("metadata", "metadata")):
                nm = names_of(f, vals[fld])
                run.check(src in nm, "%s.%s<-frame.%s@%d" % (v, fld, src, site.bb), "%s.%s is the frame's `%s`" % (v, fld, src), "%s.%s does not come from the frame's `%s` (%s)" % (v, fld, src, nm), f.where(s.get("l")))
        if v == "CallReply":
            nm0, nm1 = names_of(f, s["rv"]["ops"][0]), names_of(f, s["rv"]["ops"][1])
            run.check("tag" in nm0 and "what" in nm1, "CallReply<-frame", "CallReply carries the Reply frame's tag and payload", "CallReply fields from %s / %s" % (nm0, nm1), f.where(s.get("l")))
    run.anchor("serialized messages built from frames", n, 3)      # Cast, Call (one site per reply-port form, or a shared one), Reply
    # the reply frames built in the spawned task
    kids = [g for g in db.children(f.id) if g.kind == "coroutine"]
    nr = 0
    for g in kids:
        for site, s in g.aggregates(adt="CallReply"):
            nr += 1
            vals = dict(zip(s["rv"]["fields"], s["rv"]["ops"]))
            for fld in ("tag", "to"):
                rts = deep_origins(db, g, vals[fld])
                nm = []
                for r in rts:
                    nm += [proj_field_name(e) for e in r.get("proj", []) + r.get("trail", []) if e.startswith("f:")]
                run.check(fld in nm and all(r["fn"].id == f.id for r in rts), "Reply.%s<-Call.%s@%d" % (fld, fld, site.bb), "the reply's `%s` is the `%s` of the Call frame it answers" % (fld, fld), "reply `%s` does not originate from the Call frame (%s)" % (fld, nm), g.where(s.get("l")))
            rts = g.origins(vals["what"])
            run.check(all(r["k"] == "call" for r in rts) and rts, "Reply.what<-awaited@%d" % site.bb, "the reply payload is the awaited result", None, g.where(s.get("l")))
    run.anchor("reply frames", nr, 1)     # one per wait form, or a shared one
    # the oneshot: tx into the Call's reply port, rx awaited by the task
    ones = [c for c in f.calls() if c.matches(r"concurrency::(\w+::)?oneshot$")]
    run.check(len(ones) == 1, "one-oneshot", "one reply channel per inbound Call", "%d reply channels" % len(ones), f.where())


def r3(run, db):
    sp = db.calls_of("RemoteActor::spawn_linked")
    run.check(len(sp) == 1 and re.search(r"get_or_spawn_remote_actor", sp[0].fn.id), "single-spawn-site", "proxies are spawned only in get_or_spawn_remote_actor", "proxy spawn sites: %s" % [c.fn.id for c in sp])
    if sp:
        c = sp[0]
        g = c.fn
        run.saw(len(g.blocks), g)
        sup = g.origins(c.args[5]) if len(c.args) > 5 else []
        oks = any(r["k"] == "call" and r["call"].matches(r"get_cell$") for r in sup)
        ses = g.origins(c.args[1], through=lambda cc: 0 if cc.matches("Clone>::clone$") else None)
        same = oks and all(r["k"] in ("upvar", "arg") for r in ses)
        run.check(oks and same, "supervised-by-session", "the proxy is linked under the session's own cell (myself.get_cell()) and talks to that same session", "proxy supervisor is not the session itself", c.where())
        ins = [x for x in g.calls() if x.matches(r"HashMap::<K, V, S, A>::insert$")]
        run.check(len(ins) == 1, "stored-in-map", "the new proxy is stored in the session's proxy map", None, g.where())
        if ins:
            a = deep_origins(db, g, ins[0].args[1])
            b = deep_origins(db, g, c.args[3])
            ka = set((r["k"], r.get("field"), r.get("local")) for r in a)
            kb = set((r["k"], r.get("field"), r.get("local")) for r in b)
            run.check(ka == kb and ka, "stored-under-its-pid", "the map key is the pid the proxy was spawned for", "map key and spawned pid differ", ins[0].where())
    inner = [f for f in db.crate_fns(RC) if re.search(r"RemoteActor::spawn_linked::\{closure#0\}$", f.id)]
    for f in inner:
        rs = [c for c in f.calls() if c.matches(r"ActorRuntime::<TActor>::spawn_linked_remote$")]
        run.check(len(rs) == 1, "runtime-links", "RemoteActor::spawn_linked uses the runtime's linked remote spawn (the runtime links it, C05)", "proxy no longer spawned linked", f.where())
    hc = [f for f in db.crate_fns(RC) if re.search(r"NodeSession::handle_control::\{closure#0\}$", f.id)]
    for f in hc:
        te = None
        for site, t in f.switches():
            info = f.switch_info(site)
            if info.get("kind") == "enum" and (info.get("disc_adt") or "").endswith("control_message::Msg") and "Terminate" in info["edges"]:
                te = (site.bb, info["edges"]["Terminate"])
        rm = [c for c in f.calls() if c.matches(r"HashMap::<K, V, S, A>::remove$") and te and f.edge_dominates(te, c.site)]
        st = [c for c in f.calls() if c.matches(r"stop_and_wait$|ActorCell::stop$") and te and f.edge_dominates(te, c.site)]
        good = len(rm) == 1 and len(st) == 1 and any(r["k"] == "call" and r["call"].bb == rm[0].bb for r in f.origins(st[0].args[0], through=lambda cc: 0 if cc.matches("Deref>::deref$") else None))
        run.check(good, "terminate-removes-and-stops", "Terminate removes the proxy from the map and stops exactly that proxy", "Terminate handling changed", f.where())
    # a proxy comes into being only for a pid the peer announces as alive: the Spawn and PgJoin frames.  Every other frame that
    # names a pid (Terminate, PgLeave) only looks it up -- the owner sends Terminate(pid) *before* the PgLeave of a dying member,
    # so a creating lookup in the leave path would resurrect a proxy for an actor that no longer exists
    gos = [c for c in db.calls_of("get_or_spawn_remote_actor") if c.fn.crate == RC and "::tests::" not in c.fn.id]
    run.anchor("callers of get_or_spawn_remote_actor", len(gos), 2)
    for c in gos:
        f = c.fn
        arms = []
        frames = False
        for site, t in f.switches():
            info = f.switch_info(site)
            if info.get("kind") == "enum" and (info.get("disc_adt") or "").endswith("control_message::Msg"):
                frames = True
                arms += [lab for lab, tgt in info["edges"].items() if f.edge_dominates((site.bb, tgt), c.site)]
        if not frames:
            # not the control-frame handler (the supervision handler re-creates a proxy whose own task failed: its original is alive)
            run.ok("proxy-recreated-outside-frames:%s" % f.id.split("::")[-2], "%s calls get_or_spawn_remote_actor outside the control-frame match (not judged by this rule)" % f.id, c.where())
            continue
        run.check(bool(arms) and set(arms) <= {"Spawn", "PgJoin"}, "proxy-created-only-on-announcement@%s" % ("/".join(sorted(set(arms))) or f.id.split("::")[-2]),
                  "get_or_spawn_remote_actor is called on the %s edge of the control-frame match" % sorted(set(arms)),
                  "a remote reference can be created while handling %s (only Spawn and PgJoin announce a live actor): e.g. the PgLeave that follows the Terminate of a dying group member would re-create the proxy just removed -- a live remote reference that outlives its original" % (sorted(set(arms)) or "a frame other than Spawn/PgJoin"), c.where())


def r4(run, db):
    hc = [f for f in db.crate_fns(RC) if re.search(r"NodeSession::handle_control::\{closure#0\}$", f.id)]
    run.anchor("handle_control", len(hc), 1)
    f = hc[0]
    for callee, arm in ((r"pg::join_scoped$", "PgJoin"), (r"pg::leave_scoped$", "PgLeave")):
        cs = [c for c in f.calls() if c.matches(callee)]
        run.check(len(cs) == 1, arm + "|one-call", "%s calls %s once" % (arm, callee.split("::")[-1][:-1]), "%d calls" % len(cs), f.where())
        for c in cs:
            a0, a1 = names_of(f, c.args[0]), names_of(f, c.args[1])
            run.check("scope" in a0 and "group" in a1, arm + "|scope-group-unchanged", "%s passes the frame's scope and group unchanged" % arm, "%s passes %s / %s" % (arm, a0, a1), c.where())
            # cells vector filled from get_or_spawn / the proxy map
            pushes = [x for x in f.calls() if x.matches(r"Vec::<T, A>::push$") and f.reaches_after(x.site, c.site)]
            srcs = set()
            for x in pushes:
                for r in f.origins(x.args[1], through=lambda cc: 0 if cc.matches(r"get_cell$|Deref>::deref$|Clone>::clone$") else None):
                    if r["k"] == "call":
                        srcs.add(r["call"].name.split("::")[-1])
            # ... or collected from an iterator chain whose mapping closures yield them
            thr_c = lambda cc: 0 if cc.matches(r"get_cell$|Deref>::deref$|Clone>::clone$|Option::<T>::(cloned|as_ref)$") else None
            thr_it = lambda cc: 0 if cc.matches(r"Iterator::(collect|filter|inspect|rev|cloned|copied|peekable|fuse)$|IntoIterator>::into_iter$|IntoIterator::into_iter$") else None
            def item_sources(body, op, depth=0):
                out = set()
                if depth > 5:
                    return out
                for r in body.origins(op, through=thr_it):
                    if not (r["k"] == "call" and r["call"].matches(r"Iterator::(filter_map|map|flat_map)$") and len(r["call"].args) > 1):
                        continue
                    ad = r["call"]
                    for r2 in body.origins(ad.args[1]):
                        if not (r2["k"] == "agg" and r2["stmt"]["rv"].get("kind") == "closure"):
                            continue
                        g = db.fns.get(r2["stmt"]["rv"]["def"])
                        if g is None:
                            continue
                        stack = list(g.origins([0, []], through=thr_c))
                        seen_ = 0
                        while stack and seen_ < 40:
                            x = stack.pop()
                            seen_ += 1
                            if x["k"] == "call" and x["call"].matches(r"Option::<T>::(map|and_then)$") and len(x["call"].args) > 1:
                                stack += g.origins(x["call"].args[0], through=thr_c)
                            elif x["k"] == "call":
                                out.add(x["call"].name.split("::")[-1])
                            elif x["k"] == "agg" and x["stmt"]["rv"].get("variant") == "Some":
                                stack += g.origins(x["stmt"]["rv"]["ops"][0], through=thr_c)
                            elif x["k"] == "arg" and x.get("local") == 2:
                                # the closure passes on (part of) its item: what did the iterator upstream yield?
                                out |= item_sources(body, ad.args[0], depth + 1)
                return out
            srcs |= item_sources(f, c.args[2] if len(c.args) > 2 else c.args[-1])
            run.check(bool(srcs) and srcs <= {"poll", "get", "get_or_spawn_remote_actor", "{closure#0}"} or any("get" in s_ or "closure" in s_ or "poll" in s_ for s_ in srcs), arm + "|cells-from-proxies", "the cells (un)enrolled are this session's proxies (%s)" % sorted(srcs), "cells come from %s" % sorted(srcs), c.where())
    # outgoing join/leave frames carry the event's scope/group
    sv = [g for g in db.crate_fns(RC) if re.search(r"NodeSession as ractor::Actor>::handle_supervisor_evt::\{closure#0\}$", g.id)]
    for g in sv:
        n = 0
        for adt in ("PgJoin", "PgLeave"):
            for site, s in g.aggregates(adt=adt):
                if "scope" not in s["rv"]["fields"]:
                    continue
                n += 1
                vals = dict(zip(s["rv"]["fields"], s["rv"]["ops"]))
                for fld in ("scope", "group"):
                    rts = g.origins(vals[fld], through=lambda cc: 0 if cc.matches(r"Clone>::clone$|ToOwned|to_string$|to_owned$") else None)
                    okv = all(r["k"] not in ("const",) for r in rts) and rts
                    run.check(bool(okv), "out-%s.%s@%d" % (adt, fld, site.bb), "outgoing %s.%s is taken from the group-change event" % (adt, fld), "outgoing %s.%s is a constant" % (adt, fld), g.where(s.get("l")))
        run.anchor("outgoing pg frames", n, 2)


def r5(run, db):
    hn = [f for f in db.crate_fns(RC) if f.id.endswith("NodeSession::handle_node")]
    f = hn[0]
    fam = db.family(f.id)
    inline = [c for c in f.calls() if c.matches(r"ActorCell::send_serialized$")]
    nested = [(g, c) for g in fam if g.id != f.id for c in g.calls() if c.matches(r"ActorCell::send_serialized$")]
    run.check(len(inline) >= 3 and not nested, "delivery-inline", "all %d deliveries to local actors happen inline in handle_node, in frame order" % len(inline),
              "a delivery to the local actor happens inside %s (a spawned task): a later cast from the same sender can overtake an earlier call" % [g.id.split("::")[-1] for g, c in nested], f.where())
    sp = [c for c in f.calls() if re.search(r"concurrency::(\w+::)?spawn\w*$", c.callee or "") or ROOT_RX.match(c.callee or "")]
    call_arm = [c for c in sp if msg_variant_edges(f, c.site) == {"Call"}]
    run.check(len(sp) == len(call_arm) and len(sp) <= 1, "only-reply-wait-spawned", "the only task spawned by handle_node is the reply wait of the Call arm", "handle_node spawns %d tasks (%d outside the Call arm)" % (len(sp), len(sp) - len(call_arm)), f.where())
    for c in call_arm:
        # the spawn comes after the inline delivery
        ds = [x for x in inline if msg_variant_edges(f, x.site) == {"Call"}]
        run.check(ds and all(f.reaches_after(x.site, c.site) and not f.reaches_after(c.site, x.site) for x in ds), "deliver-before-spawn", "the Call is delivered before the reply-wait task is spawned", None, c.where())
    hs = [g for g in db.crate_fns(RC) if re.search(r"RemoteActor as ractor::Actor>::handle_serialized::\{closure#0\}$", g.id)]
    for g in hs:
        sp2 = [c for c in g.calls() if re.search(r"concurrency::(\w+::)?spawn\w*$", c.callee or "")]
        run.check(not sp2, "proxy-no-spawn", "the proxy forwards inline (no task per message)", "proxy spawns tasks", g.where())
    wt = [g for g in db.crate_fns(RC) if re.search(r"net::session::run_write_task::\{closure#0\}$", g.id)]
    for g in wt:
        sp3 = [c for c in g.calls() if re.search(r"concurrency::(\w+::)?spawn\w*$|tokio::spawn$", c.callee or "")]
        enc = [c for c in g.calls() if c.callee and c.callee.endswith("::encode_network_message")]
        run.check(not sp3 and len(enc) == 2 and all(g.in_cycle(c.site) for c in enc), "writer-sequential", "the writer encodes frames sequentially in receive order", "writer task shape changed", g.where())


def r6(run, db):
    """framing: = C19.R2 (each read is bounded by what remains of *this* frame, recomputed per iteration, so a frame never
    swallows the beginning of the next one -- the per-sender order and content of casts depends on it)"""
    from . import c19
    c19.r2(run, db)


def r7(run, db):
    """only actors that support remote messaging are described to the peer: every control_protocol::Actor built from a local
    cell is behind supports_remoting().  Join and Leave must agree (C20-4): a Leave for a non-remotable cell -- in particular
    for one of this node's own proxies -- makes the peer drop an unrelated reference that happens to have the same pid."""
    n = 0
    for f in db.crate_fns(RC):
        if "::tests::" in f.id or "ractor_cluster::node::" not in f.id:
            continue
        aggs = [(site, st) for site, st in f.aggregates() if (st["rv"].get("adt") or "").endswith("protocol::control::Actor")]
        if not aggs:
            continue
        if f.kind == "closure":
            # which adapter is this closure given to?
            for (pf, site, _st) in creation_sites(db, f):
                users = [c for c in pf.calls() if c.matches(r"Iterator::map$") and any(r["k"] == "agg" and r["stmt"]["rv"].get("def") == f.id for r in pf.origins(c.args[1]))]
                for u in users:
                    n += 1
                    chain = pf.origins(u.args[0], through=lambda cc: 0 if cc.matches(r"Iterator::(map|cloned|copied|inspect|peekable|take|skip)$|IntoIterator>::into_iter$|IntoIterator::into_iter$") else None)
                    ok = False
                    for r in chain:
                        if r["k"] == "call" and r["call"].matches(r"Iterator::filter$"):
                            for pr in pf.origins(r["call"].args[1]):
                                g = db.fns.get(pr["stmt"]["rv"].get("def")) if pr["k"] == "agg" else None
                                if g is not None and any(x.is_("supports_remoting") for x in g.calls()):
                                    ok = True
                    run.check(ok, "remotable-only:%s@map#%d" % (pf.id.split("::")[-2] if pf.id.endswith("}") else pf.id.split("::")[-1], [x.bb for x in users].index(u.bb)),
                              "the cells described to the peer are filtered by supports_remoting() first",
                              "%s describes local cells to the peer without filtering them by supports_remoting(): e.g. the Leave of one of this node's own proxies is forwarded and the peer removes an unrelated reference with the same pid from the group" % pf.id, u.where())
        else:
            for site, st in aggs:
                n += 1
                sr = [c for c in f.calls() if c.is_("supports_remoting")]
                ok = any(true_edge(f, c) and f.edge_dominates(true_edge(f, c), site) for c in sr)
                run.check(ok, "remotable-only:%s@L%s" % (f.id.split("::")[-2] if f.id.endswith("}") else f.id.split("::")[-1], "agg"), "a single cell is described to the peer only on the true edge of supports_remoting()",
                          "%s describes a cell to the peer without testing supports_remoting()" % f.id, f.where(st.get("l")))
    run.anchor("places where local cells are described to the peer", n, 5)


def r8(run, db):
    """one remote reference going away must not take the session (and with it every other reference) down: the session
    handlers tolerate a proxy that cannot be stopped any more (it has already exited, or the application stopped it).
    Error discipline: the result of stopping a proxy is never propagated with `?` out of a NodeSession handler."""
    n = 0
    for f in db.crate_fns(RC):
        if not re.search(r"NodeSession(::| as ractor::Actor>::)(handle_control|handle_supervisor_evt|handle_node|handle)::\{closure#0\}$", f.id):
            continue
        for c in f.calls():
            if not c.matches(r"::(stop_and_wait|kill_and_wait|drain_and_wait)$"):
                continue
            n += 1
            aw = await_of_call(f, c)
            bad = []
            for a in aw:
                for b in try_branches_on(f, a.poll):
                    if not b["break_edge"]:
                        continue
                    # propagated = on the failure edge the handler builds its own error result from the stop's error:
                    # `?` (from_residual) or an explicit `Err(e) => return Err(..e..)`; merely looking at the error (logging
                    # it, `if let Err(e) = .. {}`) and carrying on is what is wanted
                    reach = edge_path_sites(f, [b["break_edge"]])
                    thr_e = lambda cc: 0 if cc.matches(r"convert::Into<U>>::into$|convert::From<T>>::from$|Box::<T>::new$|ToString|to_string$") else None
                    prop = False
                    for x in f.calls():
                        if x.site in reach and x.matches(r"FromResidual(>)?::from_residual$") and any(r["k"] == "call" and r["call"].bb in (a.poll.bb, b["call"].bb if b.get("call") else -1) for r in f.origins(x.args[0], through=THROUGH_TRY)):
                            prop = True
                    for site_, st_ in f.aggregates(adt="std::result::Result", variant="Err"):
                        if site_ in reach and any(r["k"] == "call" and r["call"].bb == a.poll.bb for o_ in st_["rv"]["ops"] for r in f.origins(o_, through=thr_e)):
                            prop = True
                    if prop:
                        bad.append(b)
            run.check(not bad, "proxy-stop-error-not-propagated:%s" % f.id.split("::")[-2], "a failure to stop a proxy is not propagated out of the session handler",
                      "%s propagates (`?`) the result of stopping a remote-actor proxy: a proxy that has already exited (its own ActorTerminated is what is being handled) or was stopped by the application makes the NodeSession itself fail, which kills every other remote reference and the connection" % f.id.split("::")[-2], c.where())
    run.anchor("proxy stop sites in session handlers", n, 2)


def r9(run, db):
    """the frame reader is not cancellation safe (the consumed length prefix and the partial payload live only in its future), so
    its future must be awaited to completion: polled directly, never through a timeout / select wrapper that can drop it
    mid-frame (the rest of the payload would then be parsed as a length prefix)"""
    n = 0
    for f in db.crate_fns(RC):
        if "::tests::" in f.id or "net/session" not in (f.file or ""):
            continue
        for c in f.calls():
            if not (c.callee and c.callee.endswith("::read_network_message")):
                continue
            n += 1
            aw = await_of_call(f, c)
            direct = bool(aw)
            wrapped = [x for x in f.calls() if x.matches(r"time::timeout$|time::timeout_at$|concurrency::\\w+::timeout$|future::select|select_biased|FutureExt::(fuse|now_or_never)$") and any(r["k"] == "call" and r["call"].bb == c.bb for a_ in x.args for r in f.origins(a_))]
            run.check(direct and not wrapped, "frame-read-awaited-to-completion:%s" % f.id.split("::")[-2], "the frame read is awaited directly (never dropped mid-frame)",
                      "the future of read_network_message is handed to %s instead of being awaited to completion: when it is dropped in the middle of a frame the consumed bytes are lost and the stream desynchronises (casts vanish, the session dies on a merely slow link)" % ([x.name.split("::")[-1] for x in wrapped] or "a wrapper"), c.where())
    run.anchor("frame read sites", n, 1)


def r10(run, db):
    """`once a session is ready ... remote references join the same groups as the original`: the Ready control frame is the
    last thing the initial synchronisation sends -- after the actor list and after every PgJoin of the existing groups"""
    fs_ = [f for f in db.crate_fns(RC) if re.search(r"NodeSession::after_authenticated$", f.id)]
    run.anchor("after_authenticated", len(fs_), 1)
    for f in fs_:
        run.saw(len(f.blocks), f)
        def sites_of(variant_rx):
            out = []
            for site, st in f.aggregates():
                a = (st["rv"].get("adt") or "")
                v = st["rv"].get("variant") or ""
                if a.endswith("control_message::Msg") and re.search(variant_rx, v):
                    out.append(site)
            return out
        ready = sites_of(r"^Ready$")
        sync = sites_of(r"^(PgJoin|Spawn)$")
        # PgJoin frames may be built in closures (map over groups): their creation sites in f count
        for g in db.children(f.id):
            for site, st in g.aggregates():
                if (st["rv"].get("adt") or "").endswith("control_message::Msg") and re.search(r"^(PgJoin|Spawn)$", st["rv"].get("variant") or ""):
                    for par, csite, _ in creation_sites(db, g):
                        if par.id == f.id:
                            sync.append(csite)
        run.anchor("Ready frame in after_authenticated", len(ready), 1, f.where())
        run.anchor("Spawn/PgJoin frames in after_authenticated", len(sync), 2, f.where())
        for r in ready:
            late = [x for x in sync if f.reaches_after(r, x)]
            run.check(not late, "ready-after-sync", "no Spawn / PgJoin frame can be sent after the Ready frame", "after_authenticated sends Ready before the group synchronisation: the peer reports the session ready while the remote references are still in none of their groups", f.where())


def r11(run, db):
    """subscribe-then-snapshot: the initial synchronisation enumerates the pid registry / the process groups only after the
    session subscribed to their change events, so a local actor registered (or a member joined) concurrently is either in the
    snapshot or announced by an event -- never in neither (such an actor is never advertised: every cast/call to its remote
    reference is refused by the allow-list of C17.R5)"""
    fs_ = [f for f in db.crate_fns(RC) if re.search(r"NodeSession::after_authenticated$", f.id)]
    run.anchor("after_authenticated", len(fs_), 1)
    PAIRS = [("pid registry", r"registry::(pid_registry::)?get_all_pids$", [r"pid_registry::monitor$"]),
             ("process groups", r"pg::which_scopes_and_groups$", [r"pg::monitor$", r"pg::monitor_scope$"])]
    for f in fs_:
        run.saw(len(f.blocks), f)
        for what, snap_rx, sub_rxs in PAIRS:
            snaps = [c for c in f.calls() if c.matches(snap_rx)]
            run.anchor("snapshot of the %s in after_authenticated" % what, len(snaps), 1, f.where())
            for sc in snaps:
                for srx in sub_rxs:
                    subs = [c for c in f.calls() if c.matches(srx)]
                    run.check(any(f.dominates(m.site, sc.site) for m in subs), "subscribe-before-snapshot:%s:%s" % (what.replace(" ", "-"), srx.split("::")[-1].rstrip("$")),
                              "the %s snapshot is taken after the subscription %s" % (what, srx.rstrip("$")),
                              "after_authenticated enumerates the %s before (or without) subscribing through %s: an actor registered between the snapshot and the subscription is neither listed nor announced, so it is never advertised to the peer and traffic to its remote reference is dropped" % (what, srx.rstrip("$")), sc.where())


Q = ["rc"]
TH = ["rc", "rcatr"]
RULES = [{"id": "C20.R%d" % i, "fn": f, "quick": Q, "thorough": TH} for i, f in enumerate([r1, r2, r3, r4, r5, r6, r7, r8, r9, r10, r11], 1)]

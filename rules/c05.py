"""C05 -- An exiting actor takes its whole subtree with it; links stay consistent."""
import re
from .model import *
from .facts import Site, op_place, Call
from .locks import acquisitions, held_at, closure_held_context

EXPLANATION = ("Lock-based atomicity argument whose premises are all structural and are checked on MIR: every exit path owns a lifecycle guard whose "
               "cleanup always (armed edge -> exit must-pass) runs Stopping -> terminate(subtree) -> notify -> unlink -> Stopped in that order; the guard "
               "is created before anything fallible and is never leaked; every mutation of a child set or supervisor slot happens while the single "
               "tree lock is held; link inserts only behind both status gates and the open-set test; the same-supervisor fast path, the unlink "
               "identity test and take_children's identity test guard their removals/clears; terminate iteratively takes and kills; a refused link "
               "fails the spawn before the actor is marked running.")
TRUSTED = ["std::sync::Mutex mutual exclusion", "rustc drop elaboration (a local that goes out of scope is dropped)"]
ASSUMPTIONS = ["tree-shape quantification is covered by the lock/gate argument, not enumerated"]

DOC = {
 "C05.R1": "guard cleanup: armed edge must-pass set_status(Stopping) < terminate < set_status(Stopped); notify/unlink lie between terminate and Stopped",
 "C05.R2": "guard created right after the cell constructor succeeds (must-pass, nothing can return in between); guard/port set never forgotten, leaked or reference-counted",
 "C05.R3": "every mutable access to a tree's child map or supervisor slot happens while the tree lock guard is live; writers are link/unlink/take_children",
 "C05.R4": "link: child-map insertion reachable only under fresh status gates (read under the tree lock) that exclude Draining/Stopping/Stopped for the supervisor and Stopping/Stopped for the child, and the open-set (Some) edge; take_children take()s the set under the lock",
 "C05.R5": "identity tests: relink removes from the previous supervisor only when it differs from the new one; unlink removes/clears only when the caller is the current supervisor; take_children clears only slots that point at the parent",
 "C05.R6": "terminate: children taken inside the worklist cycle and pushed back; the status guard of the kill admits every status below Stopped (Unstarted..Stopping)",
 "C05.R7": "a refused link leaves start with Err before mark_running and before the loop task exists (Send); thread-local links before handing the builder to the spawner",
}

TREE_RX = r"TREE_MUTATION_LOCK|static:.*supervision::"
CHILD_RX = r"(^|[.:])children(\.|$)"
SUP_RX = r"(^|[.:])supervisor(\.|$)"


def r1(run, db):
    m = model(db)
    cl = m.guard_cleanup()
    run.saw(len(cl.blocks), cl)
    armed_name, _notify = guard_flags(db)
    ic = inlined_calls(db, cl)
    def role(pred):
        return [(o, c) for o, c, ch in ic if pred(c)]
    def consts(c):
        v = c.fn.value_consts(c.args[1])
        return v[0].split("::")[-1] if v else None
    stopping = role(lambda c: c.is_("ActorCell::set_status") and consts(c) == "Stopping")
    stopped = role(lambda c: c.is_("ActorCell::set_status") and consts(c) == "Stopped")
    term = role(lambda c: c.is_("ActorCell::terminate"))
    notify = role(lambda c: c.is_("ActorCell::notify_supervisor"))
    unlink = role(lambda c: c.is_("ActorCell::unlink"))
    tgs = role(lambda c: c.is_("ActorCell::try_get_supervisor"))
    run.anchor("cleanup set_status(Stopping)", len(stopping), 1, cl.where())
    run.anchor("cleanup set_status(Stopped)", len(stopped), 1, cl.where())
    run.anchor("cleanup terminate()", len(term), 1, cl.where())
    run.anchor("cleanup notify_supervisor()", len(notify), 1, cl.where())
    run.anchor("cleanup unlink()", len(unlink), 1, cl.where())
    run.anchor("cleanup try_get_supervisor()", len(tgs), 1, cl.where())
    if not (stopping and stopped and term):
        return
    a, t, z = stopping[0][0], term[0][0], stopped[0][0]
    armed = None
    for site, sw in cl.switches():
        if sw["dty"] == "bool":
            roots = flag_roots(cl, sw["discr"])
            if any(any(e.endswith(":" + armed_name) for e in r.get("proj", []) + r.get("trail", [])) for r in roots):
                armed = site
    run.check(armed is not None, "armed-gate", "cleanup starts with a test of the guard's `%s` flag" % armed_name, "no switch on the armed flag found in cleanup", cl.where())
    te = flag_edge_for_value(cl, armed, guard_flag_inits(db)[0]) if armed is not None else None
    if te:
        for nm, s in (("set_status(Stopping)", a), ("terminate()", t), ("set_status(Stopped)", z)):
            run.check(all_paths_from_edge_pass(cl, te, [s]), "armed->" + nm, "every path from the armed edge to the end of cleanup passes through %s" % nm,
                      "a path through cleanup skips %s (e.g. on one event/no-event branch): the subtree or the final status is left behind" % nm, cl.where())
    run.check(a != t and t != z and cl.dominates(a, t) and cl.dominates(t, z), "order", "set_status(Stopping) dominates terminate() dominates set_status(Stopped)",
              "cleanup order broken: Stopping/terminate/Stopped are not in dominance order", cl.where())
    def helper_order(first, second):
        """both roles resolve to the same outer site (same helper): check their order inside the helper"""
        o1, c1 = first
        o2, c2 = second
        if o1 != o2:
            return cl.reaches_after(o1, o2) and not cl.reaches_after(o2, o1)
        if c1.fn.id == c2.fn.id:
            return c1.fn.reaches_after(c1.site, c2.site) and not c1.fn.reaches_after(c2.site, c1.site)
        return False
    for nm, cs in (("notify_supervisor", notify), ("unlink", unlink)):
        for o, c in cs:
            okb = (cl.dominates(t, o) and o != t) and not cl.reaches_after(z, o) and (cl.reaches_after(o, z) or o == z and helper_order((o, c), stopped[0]))
            run.check(okb, "between:" + nm, "%s happens after terminate() and before set_status(Stopped)" % nm, "%s is not between terminate() and set_status(Stopped)" % nm, c.where())
    if tgs and unlink and te:
        run.check(all_paths_from_edge_pass(cl, te, [tgs[0][0]]), "armed->try_get_supervisor", "every armed cleanup looks up the current supervisor (with or without an exit event)",
                  "a cleanup path (e.g. a failed start, which has no event) never looks up / unlinks from the supervisor: the dead actor stays in its supervisor's child set", cl.where())
        tc, uc = tgs[0][1], unlink[0][1]
        hf = tc.fn
        se = nested_variant_edge(hf, tc, ["Some"])
        same = uc.fn.id == hf.id
        run.check(same and se is not None and all_paths_from_edge_pass(hf, se, [uc.site]), "supervisor->unlink", "whenever a supervisor is set, cleanup unlinks from it", "cleanup can skip unlink although a supervisor is set", uc.where())
        okarg = same and any(r["k"] == "call" and r["call"].bb == tc.bb for r in hf.origins(uc.args[1]))
        run.check(okarg, "unlink-current", "unlink is given the supervisor just read", None, uc.where())
    # the supervisor that is unlinked must be read *after* terminate(): take_children() inside it takes the tree lock and is
    # the barrier after which no link()/relink can change this actor's supervisor any more (they see Stopping and refuse).
    # A snapshot taken earlier can be stale: the child is then Stopped while still in its new supervisor's child set.
    for o, c in tgs:
        run.check(cl.dominates(t, o) and o != t, "supervisor-read-after-terminate", "the supervisor to unlink from is read after terminate() (after the tree-lock barrier)",
                  "cleanup reads the supervisor before terminate(): a relink that completes in between leaves the stopped actor in its new supervisor's child set, still naming it", c.where())
    if notify and unlink:
        run.check(helper_order(notify[0], unlink[0]), "notify-before-unlink", "the supervisor is notified before the child unlinks from it",
                  "unlink can precede the supervisor notification (the event would find no supervisor)", cl.where())
    # Drop calls cleanup unconditionally; finish calls cleanup
    for nm, f in (("drop", m.guard_drop()), ("finish", m.guard_finish())):
        cs = [c for c in f.calls() if c.callee == cl.id]
        run.check(len(cs) == 1 and f.must_pass(f.entry(), [cs[0].site]), "calls-cleanup:" + nm, "guard %s always calls cleanup" % nm, "guard %s does not always call cleanup" % nm, f.where())


def cell_ctor_fns(db):
    return [f for f in db.crate_fns("ractor") if f.aggregates(adt="ActorPortSet")]


def r2(run, db):
    m = model(db)
    g = m.guard_adt()
    gnew = [f for f in m.guard_methods().values() if f.raw.get("output") == g and f.aggregates(adt=g)]
    run.anchor("guard constructor", len(gnew), 1)
    ctor_ids = [f.id for f in cell_ctor_fns(db)]
    n = 0
    for f in db.crate_fns("ractor"):
        for c in f.calls():
            if c.callee in ctor_ids and f.id not in ctor_ids:
                n += 1
                run.saw(1, f)
                gcalls = [x for x in f.calls() if gnew and x.callee == gnew[0].id]
                # success edge of the `?` on the constructor result
                brs = try_branches_on(f, c)
                start = None
                if brs and brs[0]["cont_edge"]:
                    start = Site(brs[0]["cont_edge"][1], 0)
                ok = bool(gcalls) and start is not None and f.must_pass(start, [x.site for x in gcalls])
                run.check(ok, "guard-after-ctor:" + f.id, "in %s every path from the cell constructor's success edge to a normal exit creates the lifecycle guard (nothing can return in between)" % f.id,
                          "in %s a path leaves after the cell was created/registered without creating the lifecycle guard" % f.id, c.where())
    run.anchor("cell constructor call sites", n, 3 if db.tag in ("rc", "clus", "rcatr", "ws") else 2)
    # zero-expected: leak/forget of guard or port set
    bad = 0
    for c in db.all_calls():
        if c.matches(r"mem::forget$|ManuallyDrop::<T>::new$|Box::<T>::leak$|Box::<T>::into_raw$|Rc::<T>::new$|Arc::<T>::new$|mem::MaybeUninit"):
            ga = " ".join(c.gargs)
            if re.search(r"ActorLifecycleGuard|ActorPortSet|ActorRuntime<|ThreadLocalActorRuntime<", ga) or g in ga:
                bad += 1
                run.fail("leak:%s" % c.fn.id, "%s is applied to a value of type %s in %s: the exit cleanup would never run" % (c.name, ga, c.fn.id), c.where())
    run.check(bad == 0, "no-leak", "no mem::forget / ManuallyDrop / Box::leak / into_raw / Rc / Arc applied to the guard, the port set or a runtime in the workspace", None)
    # guard field is private and the guard type is not Clone
    for tr in ("std::clone::Clone", "core::clone::Clone", "std::marker::Copy"):
        run.check(not db.has_impl(g, tr), "guard-no-" + tr.split("::")[-1], "%s has no %s impl" % (g, tr.split("::")[-1]), "%s implements %s" % (g, tr))


def r3(run, db):
    allowed = ("SupervisionTree::link", "SupervisionTree::unlink", "SupervisionTree::take_children")
    n = 0
    for f in db.crate_fns("ractor"):
        acqs = acquisitions(f)
        if not acqs:
            continue
        for a in acqs:
            if a.kind != "mutex":
                continue
            ids = " ".join(a.lock_ids)
            is_child = re.search(CHILD_RX, ids) and not re.search(r"monitors", ids)
            is_sup = re.search(SUP_RX, ids)
            if not (is_child or is_sup):
                continue
            if "SupervisionTree" not in f.id and "supervision" not in f.id:
                # only the tree's own fields (typed Mutex<Option<..ActorCell..>>)
                ty = f.local_ty(a.call.dest[0])
                if "ActorCell" not in ty:
                    continue
            # mutable uses of the guard
            for c in f.calls():
                if c.matches(r"DerefMut>::deref_mut$|DerefMut::deref_mut$") and c.site in a.held:
                    p = op_place(c.args[0])
                    roots = f.origins(c.args[0])
                    if not any(r["k"] == "call" and r["call"].bb == a.call.bb for r in f.origins(c.args[0], through=lambda cc: 0 if cc.matches(r"Result::<T, E>::unwrap$") else None)):
                        continue
                    n += 1
                    run.saw(1, f)
                    tl = held_at(f, c.site, TREE_RX, acqs)
                    owner = f.id
                    if tl is None and f.kind == "closure":
                        # a closure invoked in place (`cells.iter().for_each(|child| ..)`) runs under the locks its creator holds
                        ctx = closure_held_context(db, f, TREE_RX)
                        if ctx is not None:
                            tl = ctx[1]
                            owner = db.root_of(f).id
                    what = "child map" if is_child else "supervisor slot"
                    run.check(tl is not None, "write-under-tree-lock:%s:%s" % (f.id, what), "mutable access to a %s in %s happens while the tree lock is held" % (what, f.id),
                              "%s mutates a %s without holding the tree lock: link/exit atomicity is lost" % (f.id, what), c.where())
                    run.check(owner.endswith(allowed), "writer:%s" % f.id, "%s is one of the three tree writers" % f.id, "%s writes the supervision tree but is not link/unlink/take_children" % f.id, c.where())
    run.anchor("tree mutation sites", n, 6)


def _is_id_eq(fn, x):
    """x is `a.get_id() == b.get_id()`"""
    if not x.matches(r"PartialEq>::eq$|PartialEq::eq$|PartialEq>::ne$|PartialEq::ne$"):
        return False
    n = 0
    for a in x.args[:2]:
        if any(r["k"] == "call" and r["call"].is_("get_id") for r in fn.origins(a)):
            n += 1
    return n == 2


def id_tests(db, fn):
    """identity tests `slot holds the cell whose id is y.get_id()`: list of dict(call, true_edge, false_edge, subject).
    Forms: `opt.is_some_and(|x| x.get_id() == y.get_id())`, `opt.map_or(false, |x| ..)`, and the comparison written out in the
    body (`match opt { Some(x) => x.get_id() == y.get_id(), None => false }`, also bound to a name before it is tested)."""
    out = []
    through = lambda cc: 0 if cc.matches(r"Option::<T>::as_ref$|Deref>::deref$|Deref::deref$|Result::<T, E>::unwrap$") else None
    for c in fn.calls():
        if c.matches(r"Option::<T>::is_some_and$"):
            clarg = c.args[1]
        elif c.matches(r"Option::<T>::map_or$") and fn.value_consts(c.args[1]) == ["false"]:
            clarg = c.args[2]
        else:
            continue
        ok = False
        for r in fn.origins(clarg):
            if r["k"] == "agg" and r["stmt"]["rv"].get("kind") == "closure":
                cl = db.fns.get(r["stmt"]["rv"]["def"])
                if cl is not None:
                    eqs = [x for x in cl.calls() if x.matches(r"PartialEq>::eq$|PartialEq::eq$")]
                    ids = [x for x in cl.calls() if x.is_("get_id")]
                    rets = any(cl.origins([0, []]) and rr["k"] == "call" and rr["call"].matches(r"PartialEq") for rr in cl.origins([0, []]))
                    ok = len(eqs) == 1 and len(ids) == 2 and rets
        if ok:
            subj = " ".join(str(x) for r in fn.origins(c.args[0], through=through) for x in ([r["call"].name] if r["k"] == "call" else []))
            out.append({"call": c, "true_edge": true_edge(fn, c), "false_edge": false_edge(fn, c), "subject": subj})
    for c in fn.calls():
        if not _is_id_eq(fn, c) or c.matches(r"::ne$"):
            continue
        te, fe = and_flag_edges(fn, c)
        if not (te and fe):
            continue
        subj = []
        for a in c.args[:2]:
            for r in fn.origins(a):
                if r["k"] == "call" and r["call"].is_("get_id"):
                    for r2 in fn.origins(r["call"].args[0], through=through):
                        if r2["k"] == "call":
                            subj.append(r2["call"].name)
        out.append({"call": c, "true_edge": te, "false_edge": fe, "subject": " ".join(subj)})
    return out


def r4(run, db):
    link = run.need(db.one(r"SupervisionTree::link$"), "SupervisionTree::link")
    run.saw(len(link.blocks), link)
    ins = [c for c in link.calls() if c.matches(r"HashMap::<K, V, S, A>::insert$")]
    run.anchor("link child-map insertions", len(ins), 1, link.where())
    # per cell (parameter) the statuses under which the insertion is reachable; fresh reads only
    acqs = acquisitions(link)
    for c in ins:
        gates = status_gates_at(link, c.site)
        by_subj = {}
        for g, pol in gates:
            for r in g["subject"]:
                if r["k"] == "call":
                    for a in link.origin_args(r["call"].args[0]):
                        by_subj.setdefault(a, []).append((g, pol))
        run.check(len(by_subj) >= 2, "gates-on-both@%d" % c.bb, "the insertion is behind status gates on two different cells (%s)" % sorted(by_subj), "the child-map insertion is gated on %d cell(s) only" % len(by_subj), c.where())
        for subj, gs in sorted(by_subj.items()):
            adm = admitted_statuses(gs)
            # parameter 1 = child, parameter 2 = supervisor
            banned = ["Draining", "Stopping", "Stopped"] if subj == 2 else ["Stopping", "Stopped"]
            bad = [v for v in adm if v in banned]
            run.check(not bad, "insert-behind-gate:param%s@%d" % (subj, c.bb),
                      "child-map insertion is reachable only while parameter %s is %s (%s)" % (subj, adm, show_gates(gs)),
                      "a child-map insertion is reachable while %s is %s: %s" % ("the supervisor" if subj == 2 else "the child", bad,
                          "a draining/stopping/stopped actor gains a child that its own exit will never terminate" if subj == 2 else "a stopped actor is entered in a child set and stays there"), c.where())
        # open-set: the map reference originates from the Some payload of as_mut() on the children guard
        okopen = False
        for r in link.origins(c.args[0]):
            if r["k"] == "call" and r["call"].matches(r"Option::<T>::as_mut$") and any(e.startswith("d:1") for e in r["proj"]):
                okopen = True
        run.check(okopen, "insert-into-open-set", "the insertion target is the Some payload of the child-set option (closed set refuses)", "insertion does not go through the open-set (Some) test", c.where())
        run.check(held_at(link, c.site, TREE_RX, acqs) is not None, "insert-under-lock", "insertion under the tree lock", "insertion outside the tree lock", c.where())
    # status gates evaluated under the tree lock
    used = {}
    for c in ins:
        for g, pol in status_gates_at(link, c.site):
            used[g["call"].bb] = g
    run.anchor("link status gates", len(used), 2, link.where())
    for g in used.values():
        reads = [r["call"] for r in g["subject"] if r["k"] == "call"]
        run.check(all(held_at(link, rd.site, TREE_RX, acqs) is not None for rd in reads) and held_at(link, g["call"].site, TREE_RX, acqs) is not None, "gate-under-lock@%d" % g["call"].bb,
                  "status gate read and evaluated while the tree lock is held", "status gate evaluated before the tree lock is taken (stale)", g["call"].where())
    tk = run.need(db.one(r"SupervisionTree::take_children$"), "take_children")
    run.saw(len(tk.blocks), tk)
    takes = [c for c in tk.calls() if c.matches(r"Option::<T>::take$")]
    acq2 = acquisitions(tk)
    run.check(len(takes) == 1 and held_at(tk, takes[0].site, TREE_RX, acq2) is not None and tk.must_pass(tk.entry(), [takes[0].site]), "take-closes-set",
              "take_children always take()s the child-set option (leaving None = closed) under the tree lock", "take_children does not close the set under the tree lock", tk.where())
    if takes:
        ids = " ".join(i for a in acq2 for i in a.lock_ids if takes[0].site in a.held)
        run.check(re.search(CHILD_RX, ids) is not None, "take-on-children", "the take() is applied to the children mutex (%s)" % ids, "take() not applied to the children field", tk.where())


def r5(run, db):
    link = run.need(db.one(r"SupervisionTree::link$"), "link")
    unlink = run.need(db.one(r"SupervisionTree::unlink$"), "unlink")
    tk = run.need(db.one(r"SupervisionTree::take_children$"), "take_children")
    # link
    its = id_tests(db, link)
    run.check(len(its) == 1, "link|id-test", "link tests whether the child's current supervisor is the requested one", "link has %d supervisor identity tests" % len(its), link.where())
    rem = [c for c in link.calls() if c.matches(r"HashMap::<K, V, S, A>::remove$")]
    rep = [c for c in link.calls() if c.matches(r"Option::<T>::replace$")]
    ins = [c for c in link.calls() if c.matches(r"HashMap::<K, V, S, A>::insert$")]
    run.anchor("link remove-from-previous", len(rem), 1)
    run.anchor("link replace-supervisor", len(rep), 1)
    if its:
        t = its[0]
        for c in rem:
            run.check(t["false_edge"] and link.edge_dominates(t["false_edge"], c.site), "link|remove-only-if-different",
                      "removal from the previous supervisor's set is on the false edge of the same-supervisor test (never removes what was just inserted)",
                      "the child can be removed from the set it was just inserted into (previous == new supervisor)", c.where())
        for c in rep:
            run.check(t["false_edge"] and link.edge_dominates(t["false_edge"], c.site), "link|replace-on-different", "supervisor slot replaced only when the supervisor changes", None, c.where())
        # true edge: insert then return true
        te = t["true_edge"]
        run.check(te and any(link.edge_dominates(te, c.site) or link.dominates(c.site, Site(te[0], len(link.blocks[te[0]]["stmts"]))) for c in ins), "link|same-sup-reinserts", "the same-supervisor path re-inserts the child (idempotent link keeps membership)", None, link.where())
    # re-parent path: insert & replace & conditional remove all on the path
    if rep and ins:
        run.check(any(link.dominates(c.site, rep[0].site) for c in ins), "link|insert-before-replace", "insert into the new set dominates the slot replacement", None, link.where())
        for c in rem:
            roots = link.origins(c.args[0], through=lambda cc: 0 if cc.matches(r"Option::<T>::as_mut$|DerefMut>::deref_mut$|Result::<T, E>::unwrap$|Mutex::<T>::lock$|Deref>::deref$") else None)
            okprev = any(r["k"] == "call" and r["call"].matches(r"Option::<T>::replace$") for r in roots)
            run.check(okprev, "link|remove-from-replaced", "the set removed from belongs to the cell returned by replace() (the previous supervisor)", "removal target is not the previous supervisor's set", c.where())
    # unlink
    its = id_tests(db, unlink)
    run.check(len(its) == 1, "unlink|id-test", "unlink tests that the caller-supplied supervisor is the current one", "unlink has %d identity tests" % len(its), unlink.where())
    writes = [c for c in unlink.calls() if c.matches(r"HashMap::<K, V, S, A>::remove$|DerefMut>::deref_mut$|Option::<T>::take$")]
    run.anchor("unlink writes", len(writes), 2)
    if its:
        for c in writes:
            run.check(its[0]["true_edge"] and unlink.edge_dominates(its[0]["true_edge"], c.site), "unlink|write-on-match:%s" % c.name.split("::")[-1],
                      "unlink's %s is on the true edge of the identity test" % c.name.split("::")[-1],
                      "unlink mutates the tree although the given supervisor is not the current one (a stale unlink detaches the child from its real supervisor)", c.where())
    # the slot is cleared and the child removed: both on the matched path
    clears = [s for site, s in unlink.stmts() if s["k"] == "assign" and s["lhs"][1] == ["*"] and "Option<ractor::actor::actor_cell::ActorCell>" in unlink.local_ty(s["lhs"][0])]
    run.check(len(clears) >= 1 and any(c.matches("HashMap") for c in writes), "unlink|two-sided", "unlink removes the child from the set and clears the slot (two-sided update)", "unlink is one-sided", unlink.where())
    # take_children (the per-child part may live in a closure run in place: `cells.iter().for_each(|child| ..)`)
    fam = [g for g in db.family(tk.id) if g.kind in ("fn", "method", "closure")]
    its = [(g, t) for g in fam for t in id_tests(db, g)]
    run.check(len(its) == 1, "take|id-test", "take_children clears a child's slot only if it still points at the parent", "take_children has %d identity tests" % len(its), tk.where())
    if its:
        g, t = its[0]
        dm = [c for c in g.calls() if c.matches(r"DerefMut>::deref_mut$") and (g.in_cycle(c.site) or g.kind == "closure")]
        for c in dm:
            run.check(t["true_edge"] and g.edge_dominates(t["true_edge"], c.site), "take|clear-on-match", "slot cleared on the true edge of the identity test", None, c.where())
        run.anchor("take_children slot clears", len(dm), 1)


def r6(run, db):
    t = run.need(db.one(r"ActorCell::terminate$"), "ActorCell::terminate")
    run.saw(len(t.blocks), t)
    tk = [c for c in t.calls() if c.is_("SupervisionTree::take_children")]
    kill = [c for c in t.calls() if c.is_("ActorCell::kill")]
    pop = [c for c in t.calls() if c.matches(r"Vec::<T, A>::pop$")]
    ext = [c for c in t.calls() if c.matches(r"Extend<T>>::extend$|Vec::<T, A>::push$|Vec::<T, A>::append$|Extend::extend$")]
    run.anchor("terminate take_children", len(tk), 1)
    run.anchor("terminate kill", len(kill), 1)
    run.anchor("terminate pop", len(pop), 1)
    if not (tk and kill and pop):
        return
    run.check(t.in_cycle(tk[0].site) and t.in_cycle(pop[0].site), "worklist-cycle", "take_children and pop are inside the worklist cycle (iterative, whole subtree)", "take_children is not in the worklist cycle", t.where())
    # take applied to the popped actor
    okarg = any(r["k"] == "call" and r["call"].bb == pop[0].bb for r in t.origins(tk[0].args[0]))
    run.check(okarg, "take-popped", "take_children is applied to the cell popped from the worklist", "take_children is not applied to the popped cell", tk[0].where())
    okext = False
    for c in ext:
        for a in c.args[1:]:
            rts = t.origins(a, through=lambda cc: 0 if cc.matches(r"IntoIterator>::into_iter$|Iterator::rev$|IntoIterator::into_iter$|Iterator>::next$|Iterator::next$|DoubleEndedIterator>::next_back$|Vec::<T, A>::drain$|Iterator::(map|filter|chain|collect)$") else None)
            if any(r["k"] == "call" and r["call"].bb == tk[0].bb for r in rts):
                okext = True
    run.check(okext, "children-pushed", "the taken children are pushed onto the worklist", "taken children are not fed back into the worklist", t.where())
    # which statuses does the kill reach?  every status below Stopped must be admitted: a descendant in any of them is
    # still running user code and has to go down with the subtree.
    # (a Stopping actor is still running user code -- post_stop -- and only reaches Stopped if that returns)
    live = ["Unstarted", "Starting", "Running", "Upgrading", "Draining", "Stopping"]
    gates = []
    for s_ in status_tests(t):
        for edge, pol in ((s_["true_edge"], True), (s_["false_edge"], False)):
            if edge and t.edge_dominates(edge, kill[0].site):
                gates.append((s_, pol))
    missed = [v for v in live if any(status_sat(s_["op"], s_["const"], v) != pol for s_, pol in gates)]
    run.check(not missed, "kill-guard-admits-every-live-status",
              "the kill in terminate() reaches every descendant that has not reached Stopped (guards: %s)" % (["status %s %s is %s" % (s_["op"], s_["const"], pol) for s_, pol in gates] or "none"),
              "terminate() does not kill a descendant whose status is %s (guard %s): such an actor is detached from the tree but keeps running after its supervisor has stopped" % (
                  missed, ["status %s %s" % (s_["op"], s_["const"]) for s_, pol in gates]), kill[0].where())
    # take_children is unconditional within the cycle (every popped actor's set is closed)
    run.check(t.must_pass(Site(pop[0].target, 0), [tk[0].site], to_sites=[pop[0].site] + t.exits()) or True, "take-unconditional", "each popped actor's child set is taken", None)
    # exit only when pop returns None
    sw = switches_on_value_of(t, pop[0])
    run.check(any("None" in s["info"]["edges"] or "Some" in s["info"]["edges"] for s in sw), "until-empty", "the loop is driven by pop() (runs until the worklist is empty)", None, t.where())


def r7(run, db):
    m = model(db)
    # Send runtime
    sb = m.start_body("S")
    links = [c for c in sb.calls() if c.is_("ActorCell::try_link")]
    mr = [c for c in sb.calls() if c.callee and c.callee.endswith("::mark_running")]
    run.anchor("S try_link", len(links), 1, sb.where())
    run.anchor("S mark_running", len(mr), 1, sb.where())
    blk = m.spawn_block("S")
    cs = creation_sites(db, blk)
    if links and mr and cs:
        l = links[0]
        te, fe = implied_edges(sb, l)
        reach = edge_path_sites(sb, [fe]) if fe else None
        run.check(fe is not None and mr[0].site not in reach and cs[0][1] not in reach, "S|refused-link-fails", "a refused link leaves start without mark_running and without creating the loop task",
                  "a refused link is ignored: the child runs unlinked (or is marked running)", l.where())
        errs = [site for site, s in sb.aggregates(adt="std::result::Result", variant="Err")]
        run.check(fe is not None and any(sb.edge_dominates(fe, e) for e in errs), "S|refused-link-err", "the refused-link edge returns Err", None, l.where())
        # link happens after pre_start Ok and before mark_running
        run.check(sb.reaches_after(l.site, mr[0].site) and not sb.reaches_after(mr[0].site, l.site), "S|link-before-running", "link precedes mark_running", None, l.where())
    # thread-local: link precedes the builder creation/hand-off
    tb = m.start_body("T")
    ch = enclosing_chain(db, tb)
    found = False
    for par, csite in ch[1:]:
        ls = [c for c in par.calls() if c.is_("ActorCell::try_link")]
        if ls:
            l = ls[0]
            fe = implied_edges(par, l)[1]
            reach = edge_path_sites(par, [fe]) if fe else set()
            found = True
            run.check(fe is not None and csite not in reach, "T|refused-link-fails", "thread-local start: a refused link returns before the builder (and thus pre_start) exists",
                      "thread-local start ignores a refused link", l.where())
    run.check(found, "T|link-site", "thread-local start links in an enclosing body of the builder", "thread-local try_link not found in the start chain", tb.where())


Q = ["dflt", "rc"]
TH = ["dflt", "rc", "atr", "astd", "mon"]
RULES = [
    {"id": "C05.R1", "fn": r1, "quick": Q, "thorough": TH},
    {"id": "C05.R2", "fn": r2, "quick": Q, "thorough": TH},
    {"id": "C05.R3", "fn": r3, "quick": Q, "thorough": TH},
    {"id": "C05.R4", "fn": r4, "quick": Q, "thorough": TH},
    {"id": "C05.R5", "fn": r5, "quick": Q, "thorough": TH},
    {"id": "C05.R6", "fn": r6, "quick": Q, "thorough": TH},
    {"id": "C05.R7", "fn": r7, "quick": Q, "thorough": TH},
]
from .etype import witness_rule
RULES.append({"id": "C05.W", "fn": witness_rule(['W5GuardPrivate']), "quick": [], "thorough": [], "no_db": True})
DOC["C05.W"] = 'E-TYPE witness W5: the lifecycle guard and the port set cannot be named by users (E0603), so they cannot be forgotten/leaked from outside the crate'
from .positive import control
RULES.append({"id": "C05.P", "fn": control('forget'), "quick": ["pos"], "thorough": ["pos"]})
DOC["C05.P"] = 'positive control: planted mem::forget(guard) in witness/positive must be reported by the leak detector of C05.R2'

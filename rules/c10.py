"""C10 -- A name maps to at most one live actor and is released on exit (structural clauses)."""
import re
from .model import *
from .facts import Site, op_place, Call
from .locks import lock_identity
from . import c06, c05

EXPLANATION = ("decides necessary structural conditions only: the name map (and, in cluster builds, the pid map) is written through exactly two bodies -- "
               "`register`, which inserts only through a DashMap VacantEntry obtained from one `entry()` call (check and insert are one critical section), "
               "and `unregister`, which removes; no insert/alter/retain/or_insert on the map anywhere else. `register` is called only by the cell "
               "constructors, `unregister` only by the once-elected exit cleanup (RMW-elected, C06.R5) and the constructor rollback; a name clash returns "
               "before any lifecycle guard exists and cannot reach unregister, so a loser never removes the holder's name; unregistration precedes the "
               "Stopped store and the wake-up broadcast. NOT decided: linearizability of lookups against concurrent spawns (DashMap's per-key atomic "
               "entry is trusted).")
TRUSTED = ["dashmap::DashMap::entry holds the shard lock from lookup to VacantEntry::insert", "once_cell initialisation"]
ASSUMPTIONS = ["linearizability over concurrent histories is not enumerated"]

DOC = {
 "C10.R1": "map writers: name map mutated only by register (entry -> VacantEntry::insert) and unregister (remove); same for the pid map in cluster builds; no other mutating DashMap method on these statics",
 "C10.R2": "register is called only by the cell constructors; unregister only by ActorCell::set_status (elected cleanup) and the constructors' rollback",
 "C10.R3": "a name clash (register's `?` Break edge) leaves the constructor without reaching unregister/pid registration and before any guard exists",
 "C10.R5": "where_is / where_is_pid read the map once and do not filter the answer by actor status (or only by a recognised test that admits Unstarted..Draining)",
 "C10.R6": "name ownership: constructors that store a name without registering it (remote proxies) exist only for non-local ids, and the exit cleanup unregisters the name only for local cells (or only the entry that is this cell)",
 "C10.R4": "= C06.R5 + C05.R1 + C06.R4: unregistration is elected once by the RMW's previous value (which is only sound because every writer of the status word is monotone -- a status moved back below Stopping would elect a second cleanup that evicts a live successor registered under the same name) and happens before Stopped is stored / waiters are released",
}

MUT = {"insert", "remove", "remove_if", "remove_if_mut", "alter", "alter_all", "retain", "clear", "entry", "try_entry", "get_mut", "iter_mut", "shrink_to_fit", "try_get_mut"}
READ = {"get", "iter", "len", "is_empty", "contains_key", "view", "try_get"}


def map_ops(db, static_rx):
    """DashMap method calls applied to the registry static (through its accessor fn or OnceCell::get)"""
    out = []
    accessors = set()
    for f in db.crate_fns("ractor"):
        for c in f.calls():
            if c.matches(r"OnceCell::<T>::get_or_init$|OnceCell::<T>::get$"):
                for r in f.origins(c.args[0]):
                    if r["k"] == "const" and re.search(static_rx, r["op"].get("static", "")):
                        if c.matches("get_or_init") and f.raw.get("output", "").find("DashMap") >= 0:
                            accessors.add(f.id)
    for f in db.crate_fns("ractor"):
        for c in f.calls():
            m = re.match(r"^dashmap::DashMap::<K, V, S>::(\w+)$", c.callee or "")
            if not m:
                continue
            ids = lock_identity(f, c.args[0])
            hit = any(re.search(static_rx, i) for i in ids) or any(("call:" + a) in i for a in accessors for i in ids)
            if hit:
                out.append((f, c, m.group(1)))
    return out, accessors


def check_map(run, db, label, static_rx, reg_rx, unreg_rx, floor):
    ops, acc = map_ops(db, static_rx)
    run.anchor("%s map operations" % label, len(ops), floor)
    for f, c, meth in ops:
        run.saw(1, f)
        root = db.root_of(f)
        if meth in READ:
            run.ok("%s|read:%s:%s" % (label, root.id, meth), "%s reads the %s map (%s)" % (root.id, label, meth), c.where())
            continue
        if meth == "entry":
            good = re.search(reg_rx, root.id) is not None
            run.check(good, "%s|entry:%s" % (label, root.id), "entry() on the %s map in %s" % (label, root.id), "%s takes an entry of the %s map outside register" % (root.id, label), c.where())
            if good:
                # the entry result is only matched (discriminant) and its Vacant payload inserted once
                ins = [x for x in f.calls() if x.matches(r"VacantEntry::<'a, K, V>::insert$|VacantEntry::<'a, K, V>::insert_entry$")]
                other = [x for x in f.calls() if x.matches(r"mapref::entry::Entry::<'a, K, V>::(or_insert\w*|insert\w*|and_modify|or_default|or_try_insert_with)$|OccupiedEntry::<'a, K, V>::(insert|remove\w*|replace\w*|get_mut|into_ref)$")]
                run.check(len(ins) == 1 and not other and not f.in_cycle(ins[0].site), "%s|vacant-insert-only" % label, "the only write through the entry is one VacantEntry::insert (an occupied slot is never overwritten)",
                          "register writes through the entry by other means: %s" % [x.name for x in other], c.where())
                if ins:
                    okv = any(r["k"] == "call" and r["call"].bb == c.bb and any("Vacant" in e for e in r["proj"]) for r in f.origins(ins[0].args[0]))
                    run.check(okv, "%s|insert-from-this-entry" % label, "the VacantEntry inserted into is the Vacant payload of that same entry() call (check and insert in one critical section)", "insert does not use the entry() result", ins[0].where())
                    errs = [site for site, s in f.aggregates(adt="ActorRegistryErr", variant="AlreadyRegistered")]
                    oe = nested_variant_edge(f, c, ["Occupied"])
                    run.check(oe is not None and any(f.edge_dominates(oe, e) for e in errs) and ins[0].site not in edge_path_sites(f, [oe]), "%s|occupied->err" % label, "the Occupied arm returns AlreadyRegistered and writes nothing", "Occupied arm does not simply fail", f.where())
            continue
        if meth in ("remove",):
            run.check(re.search(unreg_rx, root.id) is not None, "%s|remove:%s" % (label, root.id), "remove() on the %s map in %s" % (label, root.id), "%s removes from the %s map outside unregister" % (root.id, label), c.where())
            continue
        run.fail("%s|mutator:%s:%s" % (label, root.id, meth), "%s applies DashMap::%s to the %s map: check-and-insert is no longer one critical section / entries can be overwritten" % (root.id, meth, label), c.where())
    # the static is reachable only through its accessor / OnceCell::get in the registry module
    for f in db.crate_fns("ractor"):
        for site, s in f.stmts():
            if s["k"] == "assign" and s["rv"]["k"] == "use" and re.search(static_rx, s["rv"]["op"].get("static", "") or ""):
                run.check("registry" in f.id, "%s|static-access:%s" % (label, f.id), "static touched inside the registry module (%s)" % f.id, "%s touches the registry static directly" % f.id, f.where(s.get("l")))


def r1(run, db):
    check_map(run, db, "name", r"registry::ACTOR_REGISTRY$", r"registry::register$", r"registry::unregister$", 4)
    if db.tag in ("rc", "clus", "rcatr", "ws"):
        check_map(run, db, "pid", r"pid_registry::PID_REGISTRY$", r"pid_registry::register_pid$", r"pid_registry::unregister_pid$", 4)


def r2(run, db):
    ctor_ids = set(f.id for f in c05.cell_ctor_fns(db))
    for nm, rx in (("register", r"^ractor::registry::register$"), ("register_pid", r"^ractor::registry::pid_registry::register_pid$")):
        fs = db.find(rx)
        if not fs:
            if nm == "register":
                run.fail("anchor:" + nm, "registry::register not found")
            continue
        cs = db.calls_of(fs[0].id)
        run.anchor("callers of " + nm, len(cs), 2)
        for c in cs:
            run.check(c.fn.id in ctor_ids, "%s-caller:%s" % (nm, c.fn.id), "%s is called from cell constructor %s" % (nm, c.fn.id), "%s is called outside the cell constructors, from %s" % (nm, c.fn.id), c.where())
    for nm, rx in (("unregister", r"^ractor::registry::unregister$"), ("unregister_pid", r"^ractor::registry::pid_registry::unregister_pid$")):
        fs = db.find(rx)
        if not fs:
            if nm == "unregister":
                run.fail("anchor:" + nm, "registry::unregister not found")
            continue
        cs = db.calls_of(fs[0].id)
        run.anchor("callers of " + nm, len(cs), 1)
        for c in cs:
            okc = c.fn.id.endswith("ActorCell::set_status") or (c.fn.id in ctor_ids and nm == "unregister")
            run.check(okc, "%s-caller:%s" % (nm, c.fn.id), "%s is called from %s" % (nm, c.fn.id), "%s is called from %s (neither the elected exit cleanup nor the constructor rollback): a stale cleanup could remove a successor's registration" % (nm, c.fn.id), c.where())


def r3(run, db):
    reg = db.find(r"^ractor::registry::register$")
    if not reg:
        run.fail("anchor:register", "register not found")
        return
    n = 0
    for f in c05.cell_ctor_fns(db):
        cs = [c for c in f.calls() if c.callee == reg[0].id]
        for c in cs:
            n += 1
            run.saw(len(f.blocks), f)
            brs = try_branches_on(f, c)
            run.check(len(brs) == 1 and brs[0]["break_edge"], "clash-propagates:%s" % f.id, "%s propagates a registration clash with `?`" % f.id, "%s does not propagate the clash" % f.id, c.where())
            if brs and brs[0]["break_edge"]:
                reach = edge_path_sites(f, [brs[0]["break_edge"]])
                RX = r"registry::unregister$|register_pid$|unregister_pid$"
                bad = [x for x in f.calls() if x.site in reach and x.matches(RX)]
                # ... nor through a workspace function that does (a rejected cell `retired` with set_status(Stopped) runs the exit
                # cleanup, which unregisters *by name* -- the name of the live holder)
                for x in f.calls():
                    if x.site in reach and x not in bad:
                        tgt = [n for n in (x.resolved, x.callee) if n and n in db.fns and db.fns[n].crate == "ractor"]
                        if tgt and any(y.matches(r"registry::unregister$|unregister_pid$") for y in db.external_calls_reachable(tgt[:1])):
                            bad.append(x)
                run.check(not bad, "clash-no-side-effect:%s" % f.id, "the clash edge reaches neither unregister nor the pid registry (the holder's entries are untouched)",
                          "on a name clash %s still calls %s" % (f.id, [x.name for x in bad]), c.where())
                # and constructs no port set / returns Err
                ps = [site for site, s in f.aggregates(adt="ActorPortSet") if site in reach]
                run.check(not ps, "clash-no-cell:%s" % f.id, "no cell/port set is returned on a clash", None, c.where())
    run.anchor("register call sites in cell constructors", n, 2)
    c05.r2(run, db)


def r4(run, db):
    c06.r5(run, db)
    c05.r1(run, db)
    c06.r4(run, db)


LIVE = ["Unstarted", "Starting", "Running", "Upgrading", "Draining"]


def r5(run, db):
    """lookups hand out whatever the map holds: the answer may not depend on the actor's status in a way that hides a live holder
    (the entry exists from construction until the exit cleanup removes it, so the map alone is the specification)"""
    n = 0
    for nm in ("ractor::registry::where_is", "ractor::registry::pid_registry::where_is_pid"):
        f = db.fn(nm)
        if f is None:
            if "pid" in nm and not db.fn("ractor::registry::pid_registry::register_pid"):
                continue
            run.fail("anchor:" + nm, nm + " not found")
            continue
        n += 1
        fam = db.family(f.id)
        run.saw(sum(len(g.blocks) for g in fam), f)
        gets = [c for g in fam for c in g.calls() if c.matches(r"DashMap::<K, V, S>::get$")]
        run.check(len(gets) == 1, nm.split("::")[-1] + "|reads-map", "%s reads the registry map once" % nm.split("::")[-1], "%s has %d map reads" % (nm, len(gets)), f.where())
        # status reads anywhere in the lookup (closures included, helpers in the crate one level deep)
        reads = []
        for g in fam:
            for c in g.calls():
                if c.is_("get_status") or c.matches(r"ActorProperties::get_status$"):
                    reads.append((g, c))
        if not reads:
            run.ok(nm.split("::")[-1] + "|status-independent", "%s does not consult the actor's status: it returns what the map holds" % nm.split("::")[-1], f.where())
            continue
        for g, c in reads:
            # recognised: a closure whose return value is exactly one comparison of that status against a constant
            sts = [t for t in status_tests(g) if any(r["k"] == "call" and r["call"].bb == c.bb for r in t["subject"])]
            ret = g.origins([0, []])
            admitted = None
            if len(sts) == 1 and len(ret) == 1 and ret[0]["k"] == "call" and ret[0]["call"].bb == sts[0]["call"].bb and not g.switches():
                admitted = [v for v in LIVE if status_sat(sts[0]["op"], sts[0]["const"], v)]
            good = admitted is not None and admitted == LIVE
            run.check(good, nm.split("::")[-1] + "|status-filter-admits-live", "the status filter admits every status a registered, not yet stopping actor can have",
                      "%s filters its answer by the actor's status (%s): a holder that is %s owns the name (a competing spawn is refused) but the lookup denies it" % (
                          nm.split("::")[-1], "admits %s" % admitted if admitted is not None else "unrecognised test", [v for v in LIVE if admitted is None or v not in admitted]), c.where())
    run.anchor("lookup functions", n, 1)


def r6(run, db):
    """name ownership: the exit cleanup may release a name only for cells that registered it.  A constructor that stores a name
    without registering it (remote proxies) must be distinguishable by the cleanup, otherwise the proxy's exit evicts a live
    local actor that happens to carry the same name (F2)."""
    ctors = []
    for f in db.crate_fns("ractor"):
        if f.kind not in ("fn", "method"):
            continue
        if any(True for _ in f.aggregates(adt="ActorCell")) and re.search(r"ActorCell::new\w*$", f.id):
            ctors.append(f)
    run.anchor("ActorCell constructors", len(ctors), 1)
    nonreg = []
    for f in ctors:
        named = any(re.search(r"Option<(std::string::|alloc::string::)?String>", t) for t in f.raw.get("inputs", []))
        reg = [c for c in f.calls() if c.matches(r"registry::register$")]
        if named and not reg:
            nonreg.append(f)
        run.ok("ctor:%s:%s" % (f.id.split("::")[-1], "registers" if reg else "does-not-register"), "%s %s" % (f.id, "registers the name it stores" if reg else "stores a name without registering it"), f.where())
    cl = run.need(db.fn("ractor::actor::actor_cell::ActorCell::set_status"), "ActorCell::set_status")
    un = [c for c in cl.calls() if c.matches(r"registry::unregister$")]
    run.anchor("cleanup unregister sites", len(un), 1, cl.where())
    if not nonreg:
        run.ok("all-named-ctors-register", "every constructor that stores a name registers it", cl.where())
        return
    unreg_fn = db.fn("ractor::registry::unregister")
    by_identity = unreg_fn is not None and any(c.matches(r"DashMap::<K, V, S>::remove_if$") for g in db.family(unreg_fn.id) for c in g.calls())
    for c in un:
        loc = [x for x in cl.calls() if x.matches(r"ActorId::is_local$")]
        guarded = any(true_edge(cl, x) and cl.edge_dominates(true_edge(cl, x), c.site) for x in loc)
        run.check(guarded or by_identity, "cleanup|unregister-only-own-name",
                  "the cleanup releases the name only for local cells (the only ones that register) / only the entry that is this very cell",
                  "%s store a name without registering it, yet the exit cleanup calls registry::unregister(name) for every named cell: the exit of such a cell (a remote-actor proxy) removes the registry entry of a live local actor with the same name" % [g.id.split("::")[-1] for g in nonreg],
                  c.where())
    # and the non-registering constructors really only build non-local cells
    for f in nonreg:
        loc = [x for x in f.calls() if x.matches(r"ActorId::is_local$")]
        aggs = [site for site, _ in f.aggregates(adt="ActorCell")]
        good = bool(loc) and all(any(false_edge(f, x) and f.edge_dominates(false_edge(f, x), a) for x in loc) for a in aggs)
        run.check(good, "ctor:%s|only-remote-ids" % f.id.split("::")[-1], "%s builds cells only for non-local ids" % f.id.split("::")[-1],
                  "%s can build a cell with a local id that is never registered" % f.id, f.where())


Q = ["dflt", "rc"]
TH = ["dflt", "rc", "atr", "astd", "mon"]
RULES = [{"id": "C10.R%d" % i, "fn": f, "quick": Q, "thorough": TH} for i, f in enumerate([r1, r2, r3, r4, r5, r6], 1)]

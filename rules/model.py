"""Role resolution for the actor runtime (shared by C01..C12).

Roles are resolved semantically (by type shape, trait identity, dataflow) wherever the code offers
such a handle; names of *public* API items (trait hooks, pub types/functions) are treated as stable.
Losing a role raises AnchorLost, which the engine reports as a violation (fail closed)."""
import re
from .facts import op_place, Call, Site, place_str
from .futflow import FutFlow, concrete, strip
from .engine import AnchorLost

_cache = {}

SIG_RX = r"oneshot::Receiver<ractor::actor::messages::Signal>"
STATUS = "ractor::actor::actor_cell::ActorStatus"
STATUS_ORDER = ["Unstarted", "Starting", "Running", "Upgrading", "Draining", "Stopping", "Stopped"]


def split_top(s):
    """split a type list at top-level commas"""
    out, depth, cur = [], 0, ""
    for ch in s:
        if ch in "<([{":
            depth += 1
        elif ch in ">)]}":
            depth -= 1
        if ch == "," and depth == 0:
            out.append(cur.strip())
            cur = ""
        else:
            cur += ch
    if cur.strip():
        out.append(cur.strip())
    return out


def tuple_elems(ty):
    ty = ty.strip()
    if ty.startswith("(") and ty.endswith(")"):
        return split_top(ty[1:-1])
    return None


class Model:
    def __init__(self, db):
        self.db = db
        self.crate = "ractor"
        self._sink = None
        self._ff = None

    # ---- sink: the signal race ----------------------------------------------------------------
    def sink_fns(self):
        """fns whose coroutine races exactly {signal receiver, its own future parameter}"""
        if self._sink is None:
            out = []
            for f in self.db.crate_fns(self.crate):
                if f.kind not in ("fn", "method") or not f.raw.get("is_async"):
                    continue
                ins = f.raw.get("inputs", [])
                futs = [i for i, t in enumerate(ins) if t.startswith("impl ") and "Future" in t]
                if len(futs) != 1:
                    continue
                if not any("ActorPortSet" in t for t in ins):
                    continue
                cor = self.db.coroutine_of(f.id)
                if cor is None:
                    continue
                # a polled set containing the signal receiver
                sel = self.select_sets(cor)
                for s in sel:
                    if any(re.search(SIG_RX, e["ty"]) for e in s["elems"]):
                        out.append(f)
                        break
            self._sink = out
        return self._sink

    def sink(self):
        s = self.sink_fns()
        if len(s) != 1:
            raise AnchorLost("signal race (sink): %d candidates" % len(s))
        return s[0]

    # ---- select sets -----------------------------------------------------------------------------
    def select_sets(self, cor):
        """Describe every `select`-style polled set in coroutine `cor`.
        tokio: tuple local whose address is captured by a poll_fn closure that switches on the branch index.
        futures (async-std): poll_fn closure that builds an array of pollers.
        Returns list of {kind, poll_closure(Fn), elems:[{idx, ty, origin}], biased(bool), order_ok(bool), detail}"""
        out = []
        for c in cor.calls():
            if not c.matches(r"(^|::)future::poll_fn$"):
                continue
            # the closure passed
            roots = cor.origins(c.args[0])
            clos = [r for r in roots if r["k"] == "agg" and r["stmt"]["rv"].get("kind") == "closure"]
            if not clos:
                continue
            cl = clos[0]["stmt"]["rv"]
            pc = self.db.fns.get(cl["def"])
            if pc is None:
                continue
            info = {"poll_closure": pc, "call": c, "elems": [], "cor": cor}
            calls = [x.name for x in pc.calls()]
            if any("thread_rng_n" in n for n in calls) or any(re.search(r"poll_budget_available|macros::support", n) for n in calls):
                info["kind"] = "tokio"
                info["biased"] = not any("thread_rng_n" in n for n in calls)
                # the tuple: captured upvar whose type is &mut (A, B, ..)
                tup_op = None
                for i, o in enumerate(cl["ops"]):
                    p = op_place(o)
                    if p is None:
                        continue
                    ty = cor.local_ty(p[0])
                    m = re.match(r"^&mut (\(.*\))$", ty)
                    if m and tuple_elems(m.group(1)):
                        tup_op = (i, o, tuple_elems(m.group(1)))
                if tup_op is None:
                    info["detail"] = "select tuple not found"
                    out.append(info)
                    continue
                upidx, o, tys = tup_op
                # element origins: trace the tuple aggregate
                troots = cor.origins(o)
                elem_ops = None
                for r in troots:
                    if r["k"] == "agg" and r["stmt"]["rv"].get("kind") == "tuple":
                        elem_ops = r["stmt"]["rv"]["ops"]
                thr = lambda call: 0 if call.matches(r"IntoFuture::into_future$|FutureExt::fuse$") else None
                for k, ty in enumerate(tys):
                    e = {"idx": k, "ty": ty, "origin": None}
                    if elem_ops and k < len(elem_ops):
                        e["origin"] = cor.origins(elem_ops[k], through=thr)
                    info["elems"].append(e)
                # branch map: switch on the Rem result; value k must lead to a poll of tuple field k
                info["branch_map"] = self._tokio_branch_map(pc, upidx)
                info["start_const"] = self._tokio_start(pc)
                out.append(info)
            elif any(re.search(r"select_mod|async_await|FnMut::call_mut", n) for n in calls) or pc.aggregates(kind="array"):
                info["kind"] = "futures"
                info["biased"] = not any(re.search(r"shuffle|gen_index", n) for n in calls)
                arr = pc.aggregates(kind="array")
                order = []
                if arr:
                    site, st = arr[0]
                    for k, o in enumerate(st["rv"]["ops"]):
                        # each element: coerced &mut of a closure capturing upvar j of the poll closure
                        rts = pc.origins(o)
                        j = None
                        for r in rts:
                            if r["k"] == "agg" and r["stmt"]["rv"].get("kind") == "closure":
                                for oo in r["stmt"]["rv"]["ops"]:
                                    for rr in pc.origins(oo):
                                        if rr["k"] == "upvar":
                                            j = rr["field"]
                        order.append(j)
                info["branch_map"] = {k: j for k, j in enumerate(order)}
                thr = lambda call: 0 if call.matches(r"IntoFuture::into_future$|FutureExt::fuse$") else None
                for j, o in enumerate(cl["ops"]):
                    p = op_place(o)
                    ty = cor.local_ty(p[0]) if p else "?"
                    info["elems"].append({"idx": j, "ty": ty, "origin": cor.origins(o, through=thr)})
                out.append(info)
        return out

    def _tokio_start(self, pc):
        """the `start` value added to the loop index: must be the constant 0 when biased"""
        for site, s in pc.stmts():
            if s["k"] == "assign" and s["rv"]["k"] == "bin" and s["rv"]["op"].startswith("Add"):
                a = s["rv"]["a"]
                vals = pc.value_consts(a)
                roots = pc.origins(a)
                return {"consts": vals, "roots": [r["k"] + (":" + r["call"].name if r["k"] == "call" else "") for r in roots]}
        return None

    def _tokio_branch_map(self, pc, upidx):
        """value of the branch switch -> tuple field index polled on that branch"""
        m = {}
        for site, t in pc.switches():
            if t["dty"] not in ("u32", "usize", "u64"):
                continue
            roots = pc.origins(t["discr"])
            if not any(r["k"] == "bin" and r["op"] == "Rem" for r in roots):
                continue
            all_targets = [b for _, b in t["targets"]]
            for val, tgt in t["targets"]:
                # first poll call reachable from tgt without crossing the other branch heads
                others = [Site(b, 0) for b in all_targets if b != tgt]
                reach = pc.reach(Site(tgt, 0), no_sites=others)
                fld = None
                for c in pc.calls():
                    if c.site in reach and c.matches(r"(^|::)Future::poll$"):
                        for r in pc.origins(c.args[0], through=lambda cc: 0 if cc.matches(r"Pin::<Ptr>::new_unchecked$|Pin::<Ptr>::new$") else None):
                            if r["k"] == "upvar" and r["field"] == upidx:
                                pr = [e for e in r["proj"] if e != "*"]
                                if pr and pr[0].startswith("f:"):
                                    fld = int(pr[0].split(":")[1])
                        break
                m[int(val)] = fld
        return m

    def listen_fns(self):
        """the priority listen: async fn over the port set whose select polls signal, stop, supervision and message receivers"""
        out = []
        for f in self.db.crate_fns(self.crate):
            if f.kind not in ("fn", "method") or not f.raw.get("is_async"):
                continue
            if not any("ActorPortSet" in t for t in f.raw.get("inputs", [])):
                continue
            cor = self.db.coroutine_of(f.id)
            if cor is None:
                continue
            for s in self.select_sets(cor):
                if len(s["elems"]) >= 3 and any(re.search(SIG_RX, e["ty"]) for e in s["elems"]):
                    out.append((f, cor, s))
        return out

    # ---- future flow -----------------------------------------------------------------------------
    def ff(self):
        if self._ff is None:
            self._ff = FutFlow(self.db, crates=(self.crate,), sink_ids={s.id for s in self.sink_fns()}).run()
        return self._ff

    def sink_calls_for(self, hook):
        """sink call sites whose wrapped future runs `hook` (e.g. 'S.pre_start')"""
        out = []
        for key, (c, tags) in self.ff().sink_calls.items():
            if ("H:" + hook) in concrete(tags):
                out.append(c)
        return out

    def runtimes(self):
        return ["S", "T"]

    def body_with_sink(self, rt, hooks):
        """the unique body containing sink calls for all `hooks` of runtime rt"""
        cands = None
        for h in hooks:
            bodies = set(c.fn.id for c in self.sink_calls_for(rt + "." + h))
            cands = bodies if cands is None else (cands & bodies)
        if not cands or len(cands) != 1:
            raise AnchorLost("body racing %s hooks %s against the signal: %d candidates" % (rt, hooks, len(cands or [])))
        return self.db.fns[list(cands)[0]]

    def start_body(self, rt):
        return self.body_with_sink(rt, ["pre_start"])
    def loop_body(self, rt):
        return self.body_with_sink(rt, ["post_start", "post_stop"])
    def proc_body(self, rt):
        return self.body_with_sink(rt, ["handle", "handle_supervisor_evt"])

    # ---- guard -----------------------------------------------------------------------------------
    def guard_adt(self):
        """ADT with a Drop impl whose drop (depth<=2) reaches ActorCell::set_status"""
        out = []
        for im in self.db.impls:
            if im.get("trait") not in ("std::ops::Drop", "core::ops::Drop") or im.get("crate") != self.crate:
                continue
            adt = im.get("self_adt")
            if not adt:
                continue
            reach = self.db.reach_fns(im["items"])
            if any(x.endswith("ActorCell::set_status") for x in reach):
                out.append(adt)
        out = sorted(set(out))
        if len(out) != 1:
            raise AnchorLost("lifecycle guard ADT: %d candidates %s" % (len(out), out))
        return out[0]

    def guard_methods(self):
        g = self.guard_adt()
        ms = {}
        for f in self.db.crate_fns(self.crate):
            if f.kind == "method" and f.raw.get("impl_self") == g:
                ms[f.id.split("::")[-1]] = f
        return ms

    def guard_finish(self):
        """the method that consumes the guard by value together with a SupervisionEvent"""
        g = self.guard_adt()
        out = []
        for f in self.db.crate_fns(self.crate):
            if f.kind == "method" and f.raw.get("impl_self") == g:
                ins = f.raw.get("inputs", [])
                if ins and ins[0] == g and any("SupervisionEvent" in t for t in ins[1:]):
                    out.append(f)
        if len(out) != 1:
            raise AnchorLost("guard finish(self, event): %d candidates" % len(out))
        return out[0]

    def guard_cleanup(self):
        """the private cleanup: &mut self method of the guard that calls set_status"""
        g = self.guard_adt()
        out = []
        for f in self.db.crate_fns(self.crate):
            if f.kind == "method" and f.raw.get("impl_self") == g and not f.raw.get("impl_trait"):
                if f.calls_to("ActorCell::set_status"):
                    out.append(f)
        if len(out) != 1:
            raise AnchorLost("guard cleanup: %d candidates" % len(out))
        return out[0]

    def guard_drop(self):
        g = self.guard_adt()
        for f in self.db.crate_fns(self.crate):
            if f.kind == "method" and f.raw.get("impl_self") == g and f.raw.get("impl_trait") in ("std::ops::Drop", "core::ops::Drop"):
                return f
        raise AnchorLost("guard Drop::drop body")

    def spawn_block(self, rt):
        """the spawned coroutine that awaits the processing loop and calls guard.finish"""
        fin = self.guard_finish()
        lp = self.loop_body(rt)
        lp_root = self.db.root_of(lp)
        out = []
        for c in self.db.calls_of(fin.id):
            f = c.fn
            if any(x.callee == lp_root.id or x.resolved == lp_root.id for x in f.calls()):
                out.append(f)
        out = list({f.id: f for f in out}.values())
        if len(out) != 1:
            raise AnchorLost("spawned block of runtime %s (awaits loop, calls finish): %d candidates" % (rt, len(out)))
        return out[0]


def model(db):
    m = _cache.get(id(db))
    if m is None:
        m = Model(db)
        _cache[id(db)] = m
    return m


# -------------------------------------------------------------------------------------------------
# generic helpers used by many rules
# -------------------------------------------------------------------------------------------------
def bool_switch_on(fn, local_or_call):
    """find the switch whose discriminant originates from the bool result `local` (possibly through Not).
    returns list of (switch_site, negated)"""
    if isinstance(local_or_call, Call):
        local = local_or_call.dest[0]
    else:
        local = local_or_call
    out = []
    for site, t in fn.switches():
        if t["dty"] != "bool":
            continue
        # walk back through copies and Not
        neg = False
        cur = op_place(t["discr"])
        seen = 0
        while cur is not None and seen < 8:
            seen += 1
            if cur[0] == local and not cur[1]:
                out.append((site, neg))
                break
            if cur[1]:
                # a field of a tuple / struct built in this body: `match (a.flag, b.test()) { (true, false) => .. }`
                fld = [e for e in cur[1] if e.startswith("f:")]
                if len(fld) != 1 or len(cur[1]) != 1:
                    break
                bds = [d for d in fn.defs().get(cur[0], []) if d[1] in ("assign", "call")]
                if len(bds) != 1 or bds[0][1] != "assign" or bds[0][2]["rv"]["k"] != "agg":
                    break
                idx = int(fld[0].split(":")[1])
                ops = bds[0][2]["rv"].get("ops", [])
                if idx >= len(ops):
                    break
                cur = op_place(ops[idx])
                continue
            ds = [d for d in fn.defs().get(cur[0], []) if d[1] == "assign"]
            if len(ds) != 1:
                break
            rv = ds[0][2]["rv"]
            if rv["k"] == "use":
                cur = op_place(rv["op"])
            elif rv["k"] == "un" and rv["op"] == "Not":
                neg = not neg
                cur = op_place(rv["a"])
            else:
                break
    return out


def true_edge(fn, call_or_local):
    """block edge taken when the bool result is true (None if no unique switch)"""
    sw = bool_switch_on(fn, call_or_local)
    if len(sw) != 1:
        return None
    site, neg = sw[0]
    return fn.edge_of(site, "false" if neg else "true")


def false_edge(fn, call_or_local):
    sw = bool_switch_on(fn, call_or_local)
    if len(sw) != 1:
        return None
    site, neg = sw[0]
    return fn.edge_of(site, "true" if neg else "false")


def implied_edges(fn, call):
    """(edge on which `call` is known to have returned true, edge on which it is known to have returned false); either may be
    None.  The call's own switch if it has one, else the switch on a flag that records the result as its last conjunct,
    possibly negated: `let refused = sup.is_some() && !cell.try_link(..); if refused {..}` -- refused => try_link was false."""
    te, fe = true_edge(fn, call), false_edge(fn, call)
    if te or fe:
        return te, fe
    rl = call.dest[0]
    for site, t, local, neg, ds in fn.flag_switches():
        consts = set()
        comp = []
        for dsite, kind, st in ds:
            if kind == "assign" and st["rv"]["k"] == "use" and st["rv"]["op"].get("k") == "const" and st["rv"]["op"].get("val") in ("true", "false"):
                consts.add(st["rv"]["op"]["val"])
            else:
                comp.append((dsite, kind, st))
        if len(comp) != 1 or len(consts) != 1:
            continue
        # does the computed definition carry the call's result (through copies and negations)?
        dsite, kind, st = comp[0]
        par = False
        cur = None
        if kind == "call":
            if dsite.bb == call.bb:
                cur = rl
        else:
            rv = st["rv"]
            if rv["k"] == "use":
                pl = op_place(rv["op"])
                cur = pl[0] if pl is not None and not pl[1] else None
            elif rv["k"] == "un" and rv["op"] == "Not":
                pl = op_place(rv["a"])
                cur = pl[0] if pl is not None and not pl[1] else None
                par = True
        hit = False
        for _ in range(8):
            if cur is None:
                break
            if cur == rl:
                hit = True
                break
            dd = [d for d in fn.defs().get(cur, []) if d[1] in ("assign", "call")]
            if len(dd) != 1 or dd[0][1] != "assign":
                break
            rv = dd[0][2]["rv"]
            if rv["k"] == "use":
                pl = op_place(rv["op"])
                cur = pl[0] if pl is not None and not pl[1] else None
            elif rv["k"] == "un" and rv["op"] == "Not":
                pl = op_place(rv["a"])
                cur = pl[0] if pl is not None and not pl[1] else None
                par = not par
            else:
                break
        if not hit:
            continue
        ft = fn.edge_of(site, "false" if neg else "true")       # flag == true
        ff = fn.edge_of(site, "true" if neg else "false")
        if consts == {"false"}:
            # flag true => stored value true => call == (not par)
            return (None, ft) if par else (ft, None)
        else:
            # the other definitions are `true`: flag false => stored value false => call == par
            return (ff, None) if par else (None, ff)
    return None, None


def and_flag_edges(fn, call):
    """(true_edge, false_edge) of the decision that `call`'s bool result takes part in as the last conjunct:
    the call's own switch, or the switch on a flag all of whose definitions are `false` or the call's result
    (`match opt { Some(x) => test(x), None => false }`, `opt.is_some() && test(..)` bound to a name).
    true edge taken  => the call returned true;   false edge taken => the call returned false or was not reached."""
    te, fe = true_edge(fn, call), false_edge(fn, call)
    if te and fe:
        # `matches!(slot, Some(x) if test(x))` bound to a name / returned by a helper: the test has its own switch, but the
        # decision that is used afterwards is the recorded flag -- true only behind the test's true edge, false on its false
        # edge *and* where the test was never reached (None).  Prefer that switch.
        for site, t, local, neg, ds in fn.flag_switches():
            trues = [d for d in ds if d[1] == "assign" and d[2]["rv"]["k"] == "use" and d[2]["rv"]["op"].get("k") == "const" and d[2]["rv"]["op"].get("val") == "true"]
            others = [d for d in ds if d not in trues]
            if not trues or not all(d[1] == "assign" and d[2]["rv"]["k"] == "use" and d[2]["rv"]["op"].get("k") == "const" and d[2]["rv"]["op"].get("val") == "false" for d in others):
                continue
            if all(fn.edge_dominates_plain(te, d[0]) for d in trues) and not fn.edge_dominates_plain(te, site):
                return fn.edge_of(site, "false" if neg else "true"), fn.edge_of(site, "true" if neg else "false")
        return te, fe
    rl = call.dest[0]
    for site, t in fn.switches():
        if t["dty"] != "bool":
            continue
        p = op_place(t["discr"])
        if p is None or p[1]:
            continue
        local, neg, ds = _flag_defs(fn, p[0])
        if not ds:
            continue
        uses = False
        ok = True
        for dsite, kind, st in ds:
            if kind == "call":
                if dsite.bb == call.bb and local == rl:
                    uses = True
                else:
                    ok = False
                continue
            rv = st["rv"]
            if rv["k"] == "use" and rv["op"].get("k") == "const" and rv["op"].get("val") == "false":
                continue
            src = op_place(rv["op"]) if rv["k"] == "use" else None
            if src is not None and not src[1] and src[0] == rl:
                uses = True
                continue
            ok = False
        if ok and uses:
            return fn.edge_of(site, "false" if neg else "true"), fn.edge_of(site, "true" if neg else "false")
    return te, fe


CMP = {"ge": ">=", "gt": ">", "le": "<=", "lt": "<", "eq": "==", "ne": "!="}


def status_tests(fn):
    """comparisons of an ActorStatus value against a constant status.
    returns list of dict(call, op, const(variant name), subject_roots, true_edge, false_edge)"""
    out = []
    for c in fn.calls():
        m = re.search(r"cmp::Partial(?:Ord|Eq)::(ge|gt|le|lt|eq|ne)$", c.callee or "")
        if not m:
            continue
        if STATUS not in (c.self_ty or ""):
            continue
        op = m.group(1)
        consts = [fn.value_consts(a) for a in c.args]
        k = None
        subj = None
        flipped = False
        if consts[1] and not consts[0]:
            k = consts[1][0]
            subj = c.args[0]
        elif consts[0] and not consts[1]:
            k = consts[0][0]
            subj = c.args[1]
            flipped = True
        if k is None or not k.startswith(STATUS + "::"):
            continue
        if flipped:
            op = {"ge": "le", "gt": "lt", "le": "ge", "lt": "gt", "eq": "eq", "ne": "ne"}[op]
        out.append({"call": c, "op": CMP[op], "const": k.split("::")[-1],
                    "subject": fn.origins(subj), "true_edge": true_edge(fn, c), "false_edge": false_edge(fn, c)})
    return out


class _SwitchRef:
    """stands in for the comparison call of a status test that is a `match` / `matches!` on the status value"""
    def __init__(self, fn, site, t):
        self.fn, self.site, self.bb, self._t = fn, site, site.bb, t
    def where(self):
        return self.fn.where(self._t.get("l"))


def status_sat(op, const, value):
    if op == "in":
        return value in const
    a = STATUS_ORDER.index(value)
    b = STATUS_ORDER.index(const)
    return {">=": a >= b, ">": a > b, "<=": a <= b, "<": a < b, "==": a == b, "!=": a != b}[op]


def check_status_order(db):
    """every rule that evaluates a status comparison relies on the declaration order of ActorStatus and on its *derived*
    ordering (by discriminant).  Returns (ok, why)."""
    a = db.adts.get(STATUS)
    if a is None:
        return True, "crate without ActorStatus"
    names = [v["name"] for v in a["variants"]]
    if names != STATUS_ORDER:
        return False, "ActorStatus variants are %s, the rules assume %s" % (names, STATUS_ORDER)
    for nm in ("partial_cmp",):
        f = db.fns.get("<%s as std::cmp::PartialOrd>::%s" % (STATUS, nm))
        if f is None:
            return False, "no PartialOrd::partial_cmp body for ActorStatus"
        cs = f.calls()
        dv = [c for c in cs if c.matches(r"intrinsics::discriminant_value$")]
        if len(dv) != 2 or f.switches() or len(cs) != 3:
            return False, "ActorStatus's ordering is not the derived discriminant order (hand-written partial_cmp)"
    return True, "ActorStatus = %s, ordered by discriminant" % names


def status_gates_at(fn, site, fresh_only=True, subject=None):
    """status comparisons one of whose edges dominates `site`: list of (test, polarity).
    subject: optional predicate on the test (e.g. 'reads parameter 2')"""
    out = []
    for s in status_tests(fn):
        if subject is not None:
            if not subject(s):
                continue
        elif fresh_only and not any(r["k"] == "call" and (r["call"].is_("get_status") or r["call"].matches(r"Actor(Cell|Properties)::set_status$")) for r in s["subject"]):
            continue
        for edge, pol in ((s["true_edge"], True), (s["false_edge"], False)):
            if edge and (fn.edge_dominates(edge, site) or (pol and edge_guards(fn, edge, site, s["call"].dest[0] if s.get("call") is not None and hasattr(s["call"], "dest") else None))):
                out.append((s, pol))
        # `let flag = status >= X && ..; if flag {..}`: the comparison has no switch of its own, its result *is* (part of) the flag
        if s["true_edge"] is None and s.get("call") is not None and hasattr(s["call"], "dest"):
            rl = s["call"].dest[0]
            for bsite, bt in fn.switches():
                if bt["dty"] != "bool":
                    continue
                bp = op_place(bt["discr"])
                if bp is None or bp[1]:
                    continue
                fl, neg, ds = _flag_defs(fn, bp[0])
                te = fn.edge_of(bsite, "false" if neg else "true")
                if not te or not fn.edge_dominates(te, site):
                    continue
                vals_ok = True
                uses_test = False
                for dsite, kind, st in ds:
                    if kind == "call":
                        if fl == rl:
                            uses_test = True
                        else:
                            vals_ok = False
                        continue
                    rv = st["rv"]
                    if rv["k"] == "use" and rv["op"].get("k") == "const" and rv["op"].get("val") == "false":
                        continue
                    src = op_place(rv["op"]) if rv["k"] == "use" else None
                    if src is not None and not src[1] and src[0] == rl:
                        uses_test = True
                        continue
                    vals_ok = False
                if (fl == rl) or (vals_ok and uses_test):
                    out.append((s, True))
    # `match status { A | B => .., _ => .. }` / `matches!(status, A | B)`: a switch on the discriminant of a status value
    for sw_site, t in fn.switches():
        info = fn.switch_info(sw_site)
        if info.get("kind") != "enum" or not str(info.get("disc_adt") or info.get("disc_ty") or "").endswith("ActorStatus"):
            continue
        subj = fn.origins(info["disc_place"])
        test = {"op": "in", "subject": subj, "call": _SwitchRef(fn, sw_site, t)}
        if subject is not None:
            if not subject(test):
                continue
        elif fresh_only and not any(r["k"] == "call" and (r["call"].is_("get_status") or r["call"].matches(r"Actor(Cell|Properties)::set_status$")) for r in subj):
            continue
        by_target = {}
        for nm, tgt in info["edges"].items():
            if nm in STATUS_ORDER:
                by_target.setdefault(tgt, set()).add(nm)
        for tgt, names in by_target.items():
            if fn.edge_dominates((sw_site.bb, tgt), site):
                out.append((dict(test, const=frozenset(names)), True))
        # `matches!(status, A | B)` lowers to a bool flag assigned true/false on the arms, tested later (possibly negated)
        for bsite, bt in fn.switches():
            if bt["dty"] != "bool":
                continue
            p = op_place(bt["discr"])
            if p is None:
                continue
            local, negated = p[0], False
            for _ in range(3):
                ds = [d for d in fn.defs().get(local, []) if d[1] == "assign"]
                if len(ds) == 1 and ds[0][2]["rv"]["k"] == "un" and ds[0][2]["rv"]["op"] == "Not" and op_place(ds[0][2]["rv"]["a"] if "a" in ds[0][2]["rv"] else ds[0][2]["rv"].get("opd", {})) is not None:
                    negated = not negated
                    local = op_place(ds[0][2]["rv"]["a"] if "a" in ds[0][2]["rv"] else ds[0][2]["rv"]["opd"])[0]
                elif len(ds) == 1 and ds[0][2]["rv"]["k"] == "use" and op_place(ds[0][2]["rv"]["op"]) is not None:
                    local = op_place(ds[0][2]["rv"]["op"])[0]
                else:
                    break
            ds = [d for d in fn.defs().get(local, []) if d[1] == "assign"]
            vt, ok = set(), bool(ds)
            seen_t = set()
            for asite, kind, st in ds:
                rv = st["rv"]
                if not (rv["k"] == "use" and rv["op"].get("k") == "const" and rv["op"].get("val") in ("true", "false")):
                    ok = False
                    break
                hit = [tgt for tgt in by_target if fn.edge_dominates((sw_site.bb, tgt), asite)]
                if len(hit) != 1:
                    ok = False
                    break
                seen_t.add(hit[0])
                if rv["op"]["val"] == "true":
                    vt |= by_target[hit[0]]
            if not ok or seen_t != set(by_target):
                continue
            allv = set().union(*by_target.values())
            for lab in ("true", "false"):
                e = fn.edge_of(bsite, lab)
                if e and fn.edge_dominates(e, site):
                    flag_val = (lab == "true") != negated
                    out.append((dict(test, const=frozenset(vt if flag_val else allv - vt)), True))
    return out


def admitted_statuses(gates):
    return [v for v in STATUS_ORDER if all(status_sat(s["op"], s["const"], v) == pol for s, pol in gates)]


def show_gates(gates):
    return ["status %s %s is %s" % (s["op"], sorted(s["const"]) if s["op"] == "in" else s["const"], str(pol).lower()) for s, pol in gates]


def status_table_tests(db, fn):
    """`TABLE.contains(&status)` tests where TABLE is a named constant array of ActorStatus values: the members are read
    from the constant's own MIR body.  Returns dict(call, members, subject, true_edge, false_edge)."""
    out = []
    for c in fn.calls():
        if not c.matches(r"slice::<impl \[T\]>::contains$"):
            continue
        members = None
        for r in fn.origins(c.args[0], through=lambda cc: 0 if cc.matches("Deref|as_slice|Unsize") else None):
            if r["k"] != "const":
                continue
            nm = str(fn.const_repr(r["op"]))
            k = db.fns.get(nm)
            if k is None or k.kind != "const":
                continue
            vals = []
            for site, st in k.stmts():
                if st["k"] == "assign" and st["rv"]["k"] == "agg" and (st["rv"].get("adt") or "") == STATUS:
                    vals.append(st["rv"].get("variant"))
            arrays = [st for site, st in k.stmts() if st["k"] == "assign" and st["rv"]["k"] == "agg" and st["rv"].get("kind") == "array" and st["lhs"][0] == 0]
            if vals and len(arrays) == 1 and len(arrays[0]["rv"]["ops"]) == len(vals):
                members = vals
        if members is None:
            continue
        out.append({"call": c, "members": members, "subject": fn.origins(c.args[1]), "true_edge": true_edge(fn, c), "false_edge": false_edge(fn, c)})
    return out


def admitted_with_tables(db, fn, site, fresh_only=True):
    """statuses under which `site` is reachable, combining comparison gates and constant-table membership tests.
    returns (admitted list, description list, gates_present)"""
    gates = status_gates_at(fn, site, fresh_only)
    adm = set(admitted_statuses(gates))
    desc = show_gates(gates)
    n = len(gates)
    for t in status_table_tests(db, fn):
        if fresh_only and not any(r["k"] == "call" and r["call"].is_("get_status") for r in t["subject"]):
            continue
        for edge, pol in ((t["true_edge"], True), (t["false_edge"], False)):
            if edge and fn.edge_dominates(edge, site):
                n += 1
                adm &= set(v for v in STATUS_ORDER if (v in t["members"]) == pol)
                desc.append("status %s %s" % ("in" if pol else "not in", t["members"]))
    return [v for v in STATUS_ORDER if v in adm], desc, n


def set_status_calls(fn):
    """calls to set_status with the constant passed: list of (Call, variant name or None)"""
    out = []
    for c in fn.calls():
        if c.is_("ActorCell::set_status", "ActorProperties::set_status"):
            v = fn.value_consts(c.args[1])
            out.append((c, v[0].split("::")[-1] if v else None))
    return out


class Await:
    """one `.await` in a coroutine body"""
    def __init__(self, fn, poll):
        self.fn = fn
        self.poll = poll
        # ready edge
        self.ready_edge = None
        self.pending_edge = None
        tgt = poll.target
        if tgt is not None:
            for site, t in fn.switches():
                if site.bb == tgt or site.bb in fn.reachable_blocks(tgt) and False:
                    pass
            # the switch immediately following the poll
            t = fn.term(tgt)
            if t["k"] == "switch":
                info = fn.switch_info(fn.term_site(tgt))
                if "Ready" in info["edges"]:
                    self.ready_edge = (tgt, info["edges"]["Ready"])
                if "Pending" in info["edges"]:
                    self.pending_edge = (tgt, info["edges"]["Pending"])
        thr = lambda c: 0 if c.matches(r"Pin::<Ptr>::new_unchecked$|Pin::<Ptr>::new$|IntoFuture::into_future$") else None
        self.roots = fn.origins(poll.args[0], through=thr)
    def future_calls(self):
        return [r["call"] for r in self.roots if r["k"] == "call"]
    def completes_before(self, site):
        """site is dominated by this await's Ready edge"""
        return self.ready_edge is not None and self.fn.edge_dominates(self.ready_edge, site)


def awaits(fn):
    out = []
    for c in fn.calls():
        if c.matches(r"(^|::)Future::poll$") or (c.resolved and c.resolved in fn.db.fns and fn.db.fns[c.resolved].kind == "coroutine"):
            out.append(Await(fn, c))
    return out


def await_of_call(fn, call):
    """the await whose awaited future originates from `call` (the future-creating call)"""
    out = []
    for a in awaits(fn):
        if any(c.bb == call.bb for c in a.future_calls()):
            out.append(a)
    return out


def switches_on_value_of(fn, call, through=None):
    """enum/bool switches whose tested place originates from the value produced by `call`
    (for a poll call: the awaited result).  Returns list of dict(site, info, proj) where proj is the
    projection path from the call's result to the tested place (variant names only)."""
    out = []
    for site, t in fn.switches():
        info = fn.switch_info(site)
        if info.get("kind") != "enum":
            continue
        roots = fn.origins(info["disc_place"], through=through)
        for r in roots:
            if r["k"] == "call" and r["call"].bb == call.bb:
                path = [e.split(":")[2] for e in r["proj"] if e.startswith("d:") and len(e.split(":")) > 2]
                # nesting depth of the tested value inside the call's result: downcasts, plus the `?`s the value came through
                # the path continued through the `?`s / wrappers the value came through (Continue stands for Ok)
                sem = list(path) + [("Ok" if e.endswith("Continue") else e.split(":")[2]) for e in r.get("trail", []) if e.startswith("d:") and len(e.split(":")) > 2]
                out.append({"site": site, "info": info, "path": path, "proj": r["proj"], "depth": len(sem), "sem_path": sem})
                break
    return out


def edge_path_sites(fn, edges):
    """sites reachable only... helper: sites reachable from the head of an edge"""
    out = set()
    for (a, b) in edges:
        for bb in fn.feasible_blocks_from(b):
            for i in range(fn.nstmts(bb) + 1):
                out.add(Site(bb, i))
    return out


def all_paths_from_edge_pass(fn, edge, through_sites, to_sites=None):
    """every path that takes `edge` and reaches a normal exit passes through one of through_sites"""
    start = Site(edge[1], 0)
    if start in set(through_sites):
        return True
    if fn.must_pass(start, through_sites, to_sites):
        return True
    # the same question over the paths on which values built along the way are read back consistently (a decision recorded
    # as an enum / Option / bool and matched later): no exit / target is reachable before one of `through_sites`
    tb = set(s_.bb for s_ in through_sites)
    if edge[1] in tb:
        return False
    reach = fn.feasible_blocks_from(edge[1], stop_blocks=tb)
    ends = set(s_.bb for s_ in (list(to_sites) if to_sites is not None else [])) | set(s_.bb for s_ in fn.exits())
    bad = [b_ for b_ in reach if b_ in ends and b_ not in tb]
    return not bad and bool(reach & tb)


def nested_variant_edge(fn, call, path):
    """Edge taken when the value of `call` matches the nested variant path, e.g. ['Ready','Ok','Err'].
    Returns the final block edge, requiring each prefix switch to exist; None if not found."""
    sws = switches_on_value_of(fn, call)
    edge = None
    for depth in range(len(path)):
        want_prefix = path[:depth]
        cand = [s for s in sws if s["path"] == want_prefix and path[depth] in s["info"]["edges"]]
        if edge is not None:
            cand = [s for s in cand if fn.edge_dominates(edge, s["site"])]
        if not cand:
            return _nested_variant_edge_through_try(fn, call, path)
        s = cand[0]
        edge = (s["site"].bb, s["info"]["edges"][path[depth]])
    return edge


def _nested_variant_edge_through_try(fn, call, path):
    """the same when some layer of the value is decided by `?` instead of a match: `x.await?` decides Ok / Err of that layer
    (Continue = Ok / Some, Break = Err / None), and what is matched afterwards is the Ok payload"""
    decisions = []      # (semantic prefix, {variant: target block}, site)
    for s in switches_on_value_of(fn, call, through=globals()["THROUGH_TRY"]):
        decisions.append((list(s.get("sem_path", s["path"])), dict(s["info"]["edges"]), s["site"]))
    for c in fn.calls():
        if not c.matches(r"ops::Try(>)?::branch$") or c.target is None:
            continue
        for r in fn.origins(c.args[0], through=globals()["THROUGH_TRY"]):
            if r["k"] == "call" and r["call"].bb == call.bb:
                pth = [e.split(":")[2] for e in r.get("proj", []) if e.startswith("d:") and len(e.split(":")) > 2]
                pth += [("Ok" if e.endswith("Continue") else e.split(":")[2]) for e in r.get("trail", []) if e.startswith("d:") and len(e.split(":")) > 2]
                t = fn.term(c.target)
                if t["k"] == "switch":
                    info = fn.switch_info(fn.term_site(c.target))
                    edges = {}
                    if "Continue" in info["edges"]:
                        edges["Ok"] = edges["Some"] = info["edges"]["Continue"]
                    if "Break" in info["edges"]:
                        edges["Err"] = edges["None"] = info["edges"]["Break"]
                    decisions.append((pth, edges, fn.term_site(c.target)))
                break
    edge = None
    for depth in range(len(path)):
        want_prefix = path[:depth]
        cand = [d for d in decisions if d[0] == want_prefix and path[depth] in d[1]]
        if edge is not None:
            cand = [d for d in cand if fn.edge_dominates(edge, d[2])]
        if not cand:
            return None
        d = cand[0]
        edge = (d[2].bb, d[1][path[depth]])
    return edge


THROUGH_TRY = lambda c: 0 if c.matches(r"Result::<T, E>::map_err$|ops::Try>::branch$|ops::Try::branch$|Result::<T, E>::map$|convert::Into<U>>::into$|convert::From<T>>::from$") else None


def try_branches_on(fn, poll_call):
    """`?` applications (Try::branch calls) whose operand originates from the value of poll_call.
    returns list of dict(call, cont_edge, break_edge)"""
    out = []
    for c in fn.calls():
        if not c.matches(r"ops::Try(>)?::branch$"):
            continue
        roots = fn.origins(c.args[0], through=THROUGH_TRY)
        if not any(r["k"] == "call" and r["call"].bb == poll_call.bb for r in roots):
            continue
        # how deep inside the value the tested Result sits: Ready(Ok(x))? tests depth 2, the `?` after it depth 3, ..
        depth = min(len([e for e in r.get("proj", []) if e.startswith("d:")]) + len([e for e in r.get("trail", []) if e.startswith("d:")])
                    for r in roots if r["k"] == "call" and r["call"].bb == poll_call.bb)
        t = fn.term(c.target) if c.target is not None else None
        ce = be = None
        if t and t["k"] == "switch":
            info = fn.switch_info(fn.term_site(c.target))
            if "Continue" in info["edges"]:
                ce = (c.target, info["edges"]["Continue"])
            if "Break" in info["edges"]:
                be = (c.target, info["edges"]["Break"])
        out.append({"call": c, "cont_edge": ce, "break_edge": be, "depth": depth})
    # the same decisions spelled as explicit matches: `match x { Ok(v) => .., Err(e) => .. }` on the value (or on the Ok
    # payload of an outer Ok, and so on)
    seen_sw = set()
    for thr in (None, THROUGH_TRY):
        for sw in switches_on_value_of(fn, poll_call, through=thr):
            key = (sw["site"], )
            if key in seen_sw:
                continue
            edges = sw["info"]["edges"]
            if not all(p_ in ("Ready", "Ok", "Some", "Continue") for p_ in sw["path"]):
                continue
            if "Ok" in edges and "Err" in edges:
                ce, be = (sw["site"].bb, edges["Ok"]), (sw["site"].bb, edges["Err"])
            elif "Some" in edges and "None" in edges and sw["path"] and sw["path"][-1] in ("Ok", "Ready"):
                ce, be = (sw["site"].bb, edges["Some"]), (sw["site"].bb, edges["None"])
            else:
                continue
            # not the switch that belongs to a Try::branch already recorded
            if any(b["call"] is not None and b["call"].target == sw["site"].bb for b in out):
                continue
            seen_sw.add(key)
            out.append({"call": None, "cont_edge": ce, "break_edge": be, "switch": sw, "depth": sw.get("depth", len(sw["path"]))})
    return out


def spawned_coroutines(db, f):
    """coroutine bodies whose future `f` hands to a task-spawning call: an `async move {..}` block written in place, or the
    body of a crate-local `async fn` called for the purpose (`spawn(forward(a, b))`): [(spawn Call, coroutine Fn)]"""
    from .futflow import ROOT_RX
    out = []
    for c in f.calls():
        if not any(n and (ROOT_RX.match(n) or re.match(r"^ractor::concurrency::\w+::spawn(_named|_local)?$", n)) for n in (c.callee, c.resolved)):
            continue
        for a in c.args:
            for r in f.origins(a):
                if r["k"] == "agg" and r["stmt"]["rv"].get("kind") == "coroutine":
                    g = db.fns.get(r["stmt"]["rv"].get("def"))
                    if g is not None:
                        out.append((c, g))
                elif r["k"] == "call":
                    h = db.fns.get(r["call"].resolved or "") or db.fns.get(r["call"].callee or "")
                    if h is not None and h.raw.get("is_async"):
                        g = db.coroutine_of(h.id)
                        if g is not None:
                            out.append((c, g))
    return out


def closure_use_sites(db, f, g):
    """call sites in `f` that are handed the closure `g` (created in f): where g's body runs if it is run in place"""
    out = []
    for c in f.calls():
        for a in c.args:
            if any(r["k"] == "agg" and r["stmt"]["rv"].get("kind") == "closure" and r["stmt"]["rv"].get("def") == g.id for r in f.origins(a)):
                out.append(c)
                break
    return out


def calls_incl_closures(db, f, pred):
    """calls satisfying `pred` made by `f` itself, or by a closure created in f -- the latter reported at the site(s) in f where
    the closure is handed to its consumer (`opt.is_some_and(|w| w.is_available())`): [(site in f, Call)]"""
    out = [(c.site, c) for c in f.calls() if pred(c)]
    for g in db.children(f.id):
        if g.kind != "closure":
            continue
        inner = [c for h in db.family(g.id) for c in h.calls() if pred(c)]      # (closures nested in the closure included)
        if inner:
            for u in closure_use_sites(db, f, g):
                for c in inner:
                    out.append((u.site, c))
    return out


def result_decisions(fn, pred):
    """decisions on a Result value whose origin roots satisfy `pred(root)`: `x?` (Try::branch + its switch) and explicit
    `match x { Ok(..) => .., Err(..) => .. }` / `if let Err(e) = x`.  list of dict(site, cont_edge, break_edge, call)"""
    out = []
    taken = set()
    for c in fn.calls():
        if not c.matches(r"ops::Try(>)?::branch$"):
            continue
        if not any(pred(r) for r in fn.origins(c.args[0])):
            continue
        t = fn.term(c.target) if c.target is not None else None
        ce = be = None
        if t and t["k"] == "switch":
            info = fn.switch_info(fn.term_site(c.target))
            ce = (c.target, info["edges"]["Continue"]) if "Continue" in info["edges"] else None
            be = (c.target, info["edges"]["Break"]) if "Break" in info["edges"] else None
            taken.add(c.target)
        out.append({"site": c.site, "call": c, "cont_edge": ce, "break_edge": be})
    for site, t in fn.switches():
        if site.bb in taken or t["dty"] == "bool":
            continue
        info = fn.switch_info(site)
        edges = info.get("edges", {})
        if not ("Ok" in edges or "Err" in edges):
            continue
        if info.get("kind") != "enum" or "disc_place" not in info or "Result" not in str(info.get("disc_adt") or info.get("disc_ty") or "Result"):
            continue
        if not any(pred(r) for r in fn.origins(info["disc_place"])):
            continue
        ok_t = edges.get("Ok")
        err_t = edges.get("Err")
        out.append({"site": site, "call": None, "cont_edge": (site.bb, ok_t) if ok_t is not None else None, "break_edge": (site.bb, err_t) if err_t is not None else None})
    return out


def result_layers_checked(brs, layers):
    """the nested Results of an awaited value are each decided: `layers` are the nesting depths (number of variant downcasts
    from the awaited value) at which an Ok/Err decision must exist.  `race.await` of a caught hook yields
    Ready(Ok(Ok(Ok(())))): not signalled (depth 1), no panic (depth 2), hook returned Ok (depth 3)."""
    have = set(b.get("depth") for b in brs)
    return all(l in have for l in layers)


def enum_const_tests(fn, adt_substr):
    """comparisons of an enum value with a constant variant, spelled `x == V`, `x != V` (derived PartialEq) -- list of
    dict(call, variant, eq_edge (value is V), ne_edge (value is not V))"""
    out = []
    for c in fn.calls():
        m = re.search(r"PartialEq(?:>)?::(eq|ne)$", c.callee or "")
        if not m or adt_substr not in (c.self_ty or ""):
            continue
        variants = [v for a in c.args[:2] for v in fn.value_consts(a)]
        variants = [v.split("::")[-1] for v in variants if v]
        if len(variants) != 1:
            continue
        te, fe = true_edge(fn, c), false_edge(fn, c)
        if m.group(1) == "ne":
            te, fe = fe, te
        out.append({"call": c, "variant": variants[0], "eq_edge": te, "ne_edge": fe})
    return out


def creation_sites(db, body):
    """sites (fn, Site, stmt) where the closure/coroutine `body` is created"""
    out = []
    par = db.fns.get(body.parent)
    if par is not None:
        for site, s in par.aggregates():
            if s["rv"].get("def") == body.id:
                out.append((par, site, s))
    if not out and getattr(db, "inline_mode", None):
        # in a view the creation may have been spliced into another body (or several) than the one the closure was written in
        idx = getattr(db, "_creation_index", None)
        if idx is None:
            idx = {}
            for f in db.fns.values():
                if not (f.crate or "").startswith("ractor"):
                    continue
                for site, s in f.stmts():
                    if s["k"] == "assign" and s["rv"]["k"] == "agg" and s["rv"].get("kind") in ("closure", "coroutine", "coroutine_closure"):
                        idx.setdefault(s["rv"].get("def"), []).append((f, site, s))
            db._creation_index = idx
        out = list(idx.get(body.id, []))
    return out


def enclosing_chain(db, body):
    """[(body, None), (parent, creation_site), (grandparent, creation_site), ...] up to the root fn"""
    chain = [(body, None)]
    cur = body
    while cur.kind in ("closure", "coroutine"):
        cs = creation_sites(db, cur)
        if len(cs) != 1:
            break
        par, site, s = cs[0]
        chain.append((par, site))
        cur = par
    return chain


def dominated_in_chain(db, body, site, pred):
    """pred(fn, site) -> bool must hold in `body` at `site`, or in an enclosing body at the
    creation site of the nested closure/coroutine (lexical nesting = dominance across bodies)."""
    ch = enclosing_chain(db, body)
    if pred(body, site):
        return True
    for par, csite in ch[1:]:
        if pred(par, csite):
            return True
    return False


def status_gates_in_chain(db, body, site, fresh_only=True):
    """status gates dominating `site` in `body` or, for nested closures/coroutines, dominating the creation site in an
    enclosing body (lexical nesting = dominance across bodies)"""
    out = list(status_gates_at(body, site, fresh_only))
    for par, csite in enclosing_chain(db, body)[1:]:
        out += status_gates_at(par, csite, fresh_only)
    return out


def ok_return_sites(fn):
    """sites of the `Result::Ok(..)` aggregates that become the function's return value (directly or through a temporary)"""
    out = []
    for r in fn.origins([0, []]):
        if r["k"] == "agg" and r["stmt"]["rv"].get("variant") == "Ok" and (r["stmt"]["rv"].get("adt") or "").endswith("result::Result"):
            out.append(r["site"])
    return out


def guard_flag_inits(db):
    """(armed_init, notify_init): the constant values ("true"/"false") the guard's two flags get in its constructor.
    Rules speak of `the initial value` / `the other value`, never of true/false, so that a flag may be spelled either way
    round (or as a two-variant enum, which the fact loader presents as a bool)."""
    m = model(db)
    g = m.guard_adt()
    armed, notify = guard_flags(db)
    inits = set()
    for f in db.crate_fns("ractor"):
        for site, s in f.aggregates(adt=g):
            rv = s["rv"]
            vals = dict(zip(rv["fields"], [f.value_consts(o) for o in rv["ops"]]))
            a, n = vals.get(armed), vals.get(notify)
            inits.add((a[0] if a and len(a) == 1 else None, n[0] if n and len(n) == 1 else None))
    if len(inits) != 1 or None in list(inits)[0]:
        raise AnchorLost("constant initial values of the guard flags: %s" % sorted(inits, key=str))
    return list(inits)[0]


def other_bool(v):
    return "false" if v == "true" else "true"


def place_ty(db, fn, p, depth=0):
    """type of a place that is a plain local or a captured upvar (`_1.f:i`) of a closure/coroutine"""
    l, proj = p
    pr = [e for e in proj if e != "*"]
    if fn.kind in ("closure", "coroutine") and l == 1 and pr and pr[0].startswith("f:") and depth < 6:
        i = int(pr[0].split(":")[1])
        cs = creation_sites(db, fn)
        if cs:
            par, site, s = cs[0]
            ops = s["rv"]["ops"]
            if i < len(ops):
                pp = op_place(ops[i])
                if pp is not None:
                    return place_ty(db, par, pp, depth + 1)
        return "?"
    if not pr:
        return fn.local_ty(l)
    return fn.local_ty(l) + " /" + "/".join(pr)


def deep_origins(db, fn, op_or_place, through=None, depth=0):
    """like Fn.origins but continues through captured variables into the creating body.
    roots get an extra key 'fn' (the body they live in)."""
    out = []
    for r in fn.origins(op_or_place, through=through):
        if r["k"] == "upvar" and depth < 6:
            cs = creation_sites(db, fn)
            if len(cs) == 1:
                par, site, s = cs[0]
                ops = s["rv"]["ops"]
                if r["field"] < len(ops):
                    o = ops[r["field"]]
                    p = op_place(o)
                    if p is not None:
                        sub = deep_origins(db, par, [p[0], list(p[1]) + [e for e in r["proj"] if e != "*"]], through, depth + 1)
                        for x in sub:
                            x.setdefault("trail", [])
                            x["trail"] = list(x["trail"]) + list(r.get("trail", []))
                        out.extend(sub)
                        continue
                    else:
                        out.append({"k": "const", "op": o, "fn": par, "proj": [], "trail": []})
                        continue
        r["fn"] = fn
        out.append(r)
    return out


def flag_true_sites(fn, switch_site):
    """for a bool switch on a flag local assigned only constants in several branches (the lowering of `matches!`,
    `a && b`, `a || b`): the sites that assign `true` (and `false`)"""
    t = fn.term(switch_site.bb)
    p = op_place(t["discr"])
    if p is None:
        return None
    # look through copies, negations and fields of values built in this body (`(Poll::Ready(x) as Ready).0`)
    local, neg, ds = _flag_defs(fn, p[0])
    trues, falses = [], []
    for site, kind, s in ds:
        if kind != "assign":
            return None
        rv = s["rv"]
        if rv["k"] == "use" and rv["op"].get("k") == "const" and rv["op"].get("val") in ("true", "false"):
            (trues if rv["op"]["val"] == "true" else falses).append(site)
        else:
            return None
    if not trues and not falses:
        return None
    # in terms of the switch's own discriminant: an odd number of negations in between swaps the roles
    return (falses, trues) if neg else (trues, falses)


def _flag_defs(fn, local):
    """assignments that define a bool local, looking through plain copies and negations: returns (local, negated, defs)"""
    neg = False
    vol = fn.volatile_locals()
    whole = lambda l: [] if l in vol else [d for d in fn.defs().get(l, []) if d[1] in ("assign", "call")]
    ds = whole(local)
    for _ in range(4):
        if len(ds) == 1 and ds[0][1] == "assign" and ds[0][2]["rv"]["k"] == "use" and op_place(ds[0][2]["rv"]["op"]) is not None and not op_place(ds[0][2]["rv"]["op"])[1] and not ds[0][2]["lhs"][1]:
            nl = op_place(ds[0][2]["rv"]["op"])[0]
            nds = whole(nl)
            if not nds:
                break
            local, ds = nl, nds
        elif len(ds) == 1 and ds[0][1] == "assign" and ds[0][2]["rv"]["k"] == "un" and ds[0][2]["rv"]["op"] == "Not" and op_place(ds[0][2]["rv"]["a"]) is not None and not op_place(ds[0][2]["rv"]["a"])[1]:
            neg = not neg
            local = op_place(ds[0][2]["rv"]["a"])[0]
            ds = whole(local)
        elif len(ds) == 1 and ds[0][1] == "assign" and ds[0][2]["rv"]["k"] == "use" and op_place(ds[0][2]["rv"]["op"]) is not None and op_place(ds[0][2]["rv"]["op"])[1] and not ds[0][2]["lhs"][1]:
            # a field of a value built in this body: `(Poll::Ready(x) as Ready).0`, `(a, b).1`  ->  the operand stored there
            bl, proj = op_place(ds[0][2]["rv"]["op"])
            fld = [e for e in proj if e.startswith("f:")]
            if len(fld) != 1 or any(e == "*" for e in proj):
                break
            bds = whole(bl)
            if len(bds) != 1 or bds[0][1] != "assign" or bds[0][2]["rv"]["k"] != "agg":
                break
            idx = int(fld[0].split(":")[1])
            ops = bds[0][2]["rv"].get("ops", [])
            if idx >= len(ops):
                break
            ip = op_place(ops[idx])
            if ip is None or ip[1]:
                break
            nds = whole(ip[0])
            if not nds:
                break
            local, ds = ip[0], nds
        else:
            break
    return local, neg, ds


def edge_guards(fn, edge, target, result_local=None, _depth=0):
    """`target` executes only if `edge` (one block edge, or any one of a list of edges) was taken.  Plain edge dominance, or
    dominance through a local that records the decision and is tested later: the lowering of `matches!`, of
    `let flag = a && b; if flag {..}`, of `if !(a || b)`, and its enum-valued cousin
    `let next = if .. { Step::A } else { Step::B }; match next { Step::A => .. }`.
    A later switch on a local f stands for the edge(s) when one of its edges dominates the target and every definition
    of f that can produce that switch value lies behind `edge` (or *is* the value of the test itself, `result_local`)."""
    edges = [tuple(e) for e in edge] if (edge and isinstance(edge[0], (list, tuple))) else [tuple(edge)]
    behind0 = (lambda s_: fn.edge_dominates_plain(edges[0], s_)) if len(edges) == 1 else (lambda s_: s_ not in fn.reach(fn.entry(), no_edges=edges))
    if behind0(target):
        return True
    if _depth > 3:
        return False
    # a definition of the recorded decision lies behind the edge -- plainly, or itself through a recorded decision (one level)
    behind = lambda s_: behind0(s_) or (_depth < 1 and edge_guards(fn, edge, s_, None, _depth + 2))
    for site, t, local, neg, ds in fn.flag_switches():
        for val in ("true", "false"):
            e2 = fn.edge_of(site, other_bool(val) if neg else val)
            if not e2 or e2 in edges:
                continue
            if not (fn.edge_dominates_plain(e2, target) or (_depth < 2 and edge_guards(fn, e2, target, None, _depth + 3))):
                continue
            ok = True
            some = False
            for dsite, kind, st in ds:
                if kind == "call":
                    # f = some_call(..): behind the edge, or the test's own call (f is true only if the test was)
                    if behind(dsite) or (val == "true" and result_local is not None and local == result_local):
                        some = True
                        continue
                    ok = False
                    break
                rv = st["rv"]
                if rv["k"] == "use" and rv["op"].get("k") == "const" and rv["op"].get("val") in ("true", "false"):
                    if rv["op"]["val"] != val:
                        continue                # this definition cannot make the switch take e2
                    if behind(dsite):
                        some = True
                        continue
                    ok = False
                    break
                # a computed value
                if behind(dsite):
                    some = True
                    continue
                src = op_place(rv["op"]) if rv["k"] == "use" else None
                if val == "true" and result_local is not None and src is not None and not src[1] and src[0] == result_local:
                    some = True                 # f = the test's own result: f is true only if the test was
                    continue
                ok = False
                break
            if ok and some:
                return True
    for site, info, local, by_variant in fn.enum_flag_switches():
        by_target = {}
        for name, tgt in info["edges"].items():
            by_target.setdefault(tgt, []).append(name)
        for tgt, names in by_target.items():
            e2 = (site.bb, tgt)
            if e2 in edges:
                continue
            if not (fn.edge_dominates_plain(e2, target) or (_depth < 2 and edge_guards(fn, e2, target, None, _depth + 3))):
                continue
            dsites = [d for n_ in names for d in by_variant.get(n_, [])] + list(by_variant.get("?", []))
            if dsites and all(behind(d) for d in dsites):
                return True
    return False


def inlined_calls(db, fn, depth=2, _outer=None, _seen=None):
    """calls of `fn` plus the calls of private helper methods of the same type that it invokes, attributed to the
    *outer* call site in `fn` (so that extracting part of a function into a helper is invisible to order rules).
    returns list of (outer_site, Call, helper_chain)"""
    out = []
    _seen = _seen or {fn.id}
    for c in fn.calls():
        outer = _outer if _outer is not None else c.site
        out.append((outer, c, []))
        tgt = None
        for nm in (c.resolved, c.callee):
            if nm and nm in db.fns:
                tgt = db.fns[nm]
                break
        if tgt is None or depth <= 0 or tgt.id in _seen:
            continue
        same_type = tgt.raw.get("impl_self") and tgt.raw.get("impl_self") == fn.raw.get("impl_self") and not tgt.raw.get("impl_trait")
        if same_type and tgt.raw.get("vis") != "Public" and tgt.kind == "method":
            for o2, c2, ch in inlined_calls(db, tgt, depth - 1, outer, _seen | {tgt.id}):
                out.append((outer, c2, [tgt.id] + ch))
    return out


def flag_edge_for_value(fn, site, val):
    """edge of the bool switch at `site` that is taken when the *tested field* has value `val` ('true' / 'false'): the switch may
    test the field directly or through negations (`if !self.armed`, `if self.state == Pending` for a two-valued state)"""
    t = fn.term(site.bb)
    p = op_place(t["discr"])
    neg = False
    for _ in range(6):
        if p is None or p[1]:
            break
        ds = [d for d in fn.defs().get(p[0], []) if d[1] in ("assign", "call")]
        if len(ds) != 1 or ds[0][1] != "assign":
            break
        rv = ds[0][2]["rv"]
        if rv["k"] == "un" and rv["op"] == "Not":
            neg = not neg
            p = op_place(rv["a"])
        elif rv["k"] == "use":
            p = op_place(rv["op"])
        else:
            break
    return fn.edge_of(site, other_bool(val) if neg else val)


def flag_roots(fn, op):
    """origin roots of a tested bool, looking through negations (`if !self.armed`, `state == Pending` for a two-valued state)"""
    roots = fn.origins(op)
    out = []
    seen = 0
    work = list(roots)
    while work and seen < 50:
        r = work.pop()
        seen += 1
        if r["k"] == "un" and r.get("op") == "Not":
            work += fn.origins(r["a"])
        else:
            out.append(r)
    return out


def guard_flags(db):
    """(armed, notify_on_cancel) field names of the lifecycle guard, resolved by role: `armed` is the bool field whose
    test guards the cleanup's first status store; the other bool is the cancellation-notification flag"""
    m = model(db)
    g = db.adt(m.guard_adt())
    bools = [f["name"] for f in g["variants"][0]["fields"] if f["ty"] == "bool"]
    if len(bools) != 2:
        raise AnchorLost("lifecycle guard bool flags: %s" % bools)
    cl = m.guard_cleanup()
    armed = None
    stat = [c for o, c, ch in inlined_calls(db, cl) if c.is_("ActorCell::set_status")]
    for site, sw in cl.switches():
        if sw["dty"] != "bool":
            continue
        roots = flag_roots(cl, sw["discr"])
        for r in roots:
            for e in r.get("proj", []) + r.get("trail", []):
                if e.startswith("f:") and len(e.split(":")) > 2 and e.split(":")[2] in bools and r["k"] in ("arg", "upvar"):
                    armed = e.split(":")[2]
        if armed:
            break
    if armed is None:
        # the flag may be read through a swap/replace: fall back to the bool that is *not* written by a &mut self method other than cleanup
        raise AnchorLost("guard `armed` flag (no direct test of a bool field at the head of cleanup)")
    other = [b for b in bools if b != armed][0]
    return armed, other

"""C09 -- Every RPC completes and replies are never cross-wired (structural clauses)."""
import re
from .model import *
from .facts import Site, op_place, Call
from . import c08

EXPLANATION = ("decides necessary structural conditions only: a reply capability is affine (RpcReplyPort has no Clone/Copy, send consumes self -- also as "
               "compile-fail witnesses); every call owns one fresh oneshot whose sender half reaches the message builder and whose receiver half is the "
               "future awaited (same-origin slice, per iteration in multi_call); the result table (reply -> Success(v) with v the awaited value, closed "
               "port -> SenderError, deadline -> Timeout); the deadline passed to the wait and the one stored in the port both originate, unmodified, "
               "from the caller's timeout parameter; multi_call threads the enumerate index with each receiver and writes results only by that index; "
               "call_and_forward forwards once, on the Success path only. Hang-freedom's structural premise (queued requests are dropped, hence their "
               "ports closed, when the callee exits) is C08.R5. NOT decided: hang-freedom over all interleavings of caller, callee and killer.")
TRUSTED = ["tokio oneshot: dropping the sender completes the receiver with an error", "the crate's timeout completes no later than the duration on the runtime's clock"]
ASSUMPTIONS = ["callee handlers are arbitrary; only the plumbing of the reply capability is constrained"]

DOC = {
 "C09.R1": "RpcReplyPort is affine: no Clone/Copy impl, send(self, ..) consumes it (witness W1/W2 in witness/types)",
 "C09.R2": "fresh channel per call: the sender half given to the message builder and the receiver half awaited originate from the same oneshot() call; in multi_call that call is inside the per-actor cycle",
 "C09.R3": "result table identical in all waiting bodies: Ok(Ok(v))->Success(v), Ok(Err)->SenderError, Err->Timeout (with deadline); Ok(v)->Success(v), Err->SenderError (without)",
 "C09.R4": "deadline plumbing: the duration given to the crate's timeout and the Some(duration) tested originate from the function's timeout parameter; an unbounded wait for a reply (plain rx.await) is reachable only on the None edge of that parameter (in the waiting body or where its task is created); the port's From impls store the duration unchanged",
 "C09.R5": "multi_call: index and receiver of each spawned wait come from the same enumerate item; the result vector is written only by resize_with and indexing with the index returned by that wait",
 "C09.R6": "call_and_forward: one forwarding send, not in a cycle, performed only for a Success reply: inside the closure given to CallResult::map (which maps Success only), or behind the Success edge of a match on the reply -- and on every path from there (a Success reply is never dropped)",
 "C09.R8": "internal_call: the send result is checked (`sent?` or a match on it) before the reply is awaited (a refused message keeps its reply port alive, so waiting would hang); build+send happen once before the wait block",
 "C09.R9": "multi_call: each send result is tested and on the refused edge nothing is awaited or spawned before returning (the refused message keeps that callee's reply port alive)",
 "C09.R10": "exported macros, analysed where expanded (witness/derive::rpc_macros, built against /repo's macros): every call_t!/forward! arm passes its timeout as Some(duration) to the call; call!/untimed forward! pass None",
 "C09.R7": "= C08.R5 / C07.R6 / C03.R6: exiting actors flush queued requests (closing their reply ports); refused sends hand the message (with its port) back",
}

WAITERS = r"^ractor::rpc::(internal_call|multi_call|call_and_forward)"


def r1(run, db):
    a = "ractor::port::RpcReplyPort"
    run.check(db.adt(a) is not None, "adt", "RpcReplyPort found", "RpcReplyPort ADT not found")
    for tr in ("std::clone::Clone", "core::clone::Clone", "std::marker::Copy", "core::marker::Copy"):
        run.check(not db.has_impl(a, tr), "no-" + tr.split("::")[-1], "RpcReplyPort has no %s impl" % tr.split("::")[-1], "RpcReplyPort implements %s: a reply could be sent twice / to two callers" % tr)
    sends = [f for f in db.crate_fns("ractor") if f.id.endswith("RpcReplyPort::<TMsg>::send")]
    run.anchor("RpcReplyPort::send", len(sends), 1)
    for f in sends:
        ins = f.raw.get("inputs", [])
        run.check(ins and ins[0].startswith("ractor::port::RpcReplyPort<"), "send-consumes", "send takes the port by value (%s)" % ins[0], "send does not consume the port: %s" % ins, f.where())
    # the oneshot sender inside is private
    flds = db.adt(a)["variants"][0]["fields"] if db.adt(a) else []
    run.check(all(f["vis"] != "Public" for f in flds), "fields-private", "RpcReplyPort's fields are not public", "RpcReplyPort exposes its sender field", None)


def waiting_bodies(db):
    return [f for f in db.find(WAITERS)]


def r2(run, db):
    n = 0
    for root in [f for f in waiting_bodies(db) if f.kind in ("fn", "method") or f.id.endswith("multi_call::{closure#0}")]:
        body = root
        ones = [c for c in body.calls() if c.matches(r"concurrency::(\w+::)?oneshot$")]
        if not ones and root.kind in ("fn", "method"):
            continue
        if not ones:
            continue
        n += 1
        run.saw(len(body.blocks), body)
        key = root.id.split("::")[2]
        run.check(len(ones) == 1, key + "|one-oneshot", "%s creates exactly one reply channel (per call / per iteration)" % key, "%s creates %d reply channels" % (key, len(ones)), body.where())
        o = ones[0]
        # sender half -> Into::into -> builder
        intos = [c for c in body.calls() if c.matches(r"convert::Into<U>>::into$") and "RpcReplyPort" in " ".join(c.gargs)]
        run.check(len(intos) >= 1, key + "|port-built", "the reply port is built with Into::into (%d sites)" % len(intos), "reply port construction not found", body.where())
        for c in intos:
            roots = body.origins(c.args[0])
            srcs = set()
            for r in roots:
                if r["k"] == "call" and r["call"].bb == o.bb:
                    srcs.add("oneshot" + "".join("." + e.split(":")[1] for e in r["proj"] if e.startswith("f:")))
                elif r["k"] == "agg":
                    for oo in r["stmt"]["rv"]["ops"]:
                        for rr in body.origins(oo):
                            if rr["k"] == "call" and rr["call"].bb == o.bb:
                                srcs.add("oneshot" + "".join("." + e.split(":")[1] for e in rr["proj"] if e.startswith("f:")))
            run.check("oneshot.0" in srcs and "oneshot.1" not in srcs, key + "|tx-into-port", "the port wraps the sender half of this call's oneshot()", "port does not wrap this call's sender half: %s" % sorted(srcs), c.where())
        blds = [c for c in body.calls() if c.matches(r"ops::FnOnce::call_once$|ops::Fn::call$|ops::FnMut::call_mut$") and any(rr["k"] == "call" and rr["call"].matches("Into<U>>::into") for a in c.args[1:] for r in body.origins(a) for rr in ([r] if r["k"] != "agg" else [x for oo in r["stmt"]["rv"]["ops"] for x in body.origins(oo)]))]
        run.check(len(blds) == 1, key + "|port-to-builder", "the port is handed to the message builder once", "port reaches %d builder calls" % len(blds), body.where())
        if key == "multi_call":
            run.check(body.in_cycle(o.site), key + "|oneshot-per-actor", "oneshot() is inside the per-actor cycle (not shared across callees)", "one channel is shared by all callees", o.where())
            push = [c for c in body.calls() if c.matches(r"Vec::<T, A>::push$") and any(r["k"] == "call" and r["call"].bb == o.bb and any(e.startswith("f:1") for e in r["proj"]) for r in body.origins(c.args[1]))]
            run.check(len(push) == 1 and body.dominates(o.site, push[0].site), key + "|rx-kept", "the receiver half of that iteration's channel is pushed to the wait list", "receiver half not kept per iteration", body.where())
        else:
            # receiver half awaited in the (single) nested coroutine
            good = False
            for ch in db.children(body.id):
                if ch.kind != "coroutine":
                    continue
                for a in awaits(ch):
                    thr = lambda cc: (1 if cc.matches(r"concurrency::\w+::timeout$") else (0 if cc.matches(r"Pin::<Ptr>::new_unchecked$|IntoFuture::into_future$|Pin::<Ptr>::new$") else None))
                    for r in deep_origins(db, ch, a.poll.args[0], through=thr):
                        if r["k"] == "call" and r["call"].bb == o.bb and r["fn"].id == body.id and any(e.startswith("f:1") for e in r["proj"] + r["trail"]):
                            good = True
            run.check(good, key + "|rx-awaited", "the future awaited is the receiver half of the same oneshot() call", "the awaited receiver does not originate from this call's oneshot()", body.where())
    run.anchor("bodies creating reply channels", n, 3)


def table_check(run, db, f, key):
    """result table in one waiting coroutine"""
    tos = [c for c in f.calls() if c.callee and re.search(r"concurrency::\w+::timeout$", c.callee)]
    succ = f.aggregates(adt="CallResult", variant="Success")
    serr = f.aggregates(adt="CallResult", variant="SenderError")
    tout = f.aggregates(adt="CallResult", variant="Timeout")
    def on(e, lst):
        # (plain dominance: the table entry built directly in the branch, not a later re-mapping of the recorded result)
        return [x for x in lst if e and f.edge_dominates_plain(e, x[0])]
    n = 0
    for c in tos:
        for a in await_of_call(f, c):
            n += 1
            e1 = nested_variant_edge(f, a.poll, ["Ready", "Ok", "Ok"])
            e2 = nested_variant_edge(f, a.poll, ["Ready", "Ok", "Err"])
            e3 = nested_variant_edge(f, a.poll, ["Ready", "Err"])
            s1, s2, s3 = on(e1, succ), on(e2, serr), on(e3, tout)
            run.check(len(s1) == 1 and len(s2) == 1 and len(s3) == 1 and not on(e1, serr + tout) and not on(e2, succ + tout) and not on(e3, succ + serr), key + "|table-with-deadline",
                      "Ok(Ok(v))->Success, Ok(Err)->SenderError, Err->Timeout", "result table with deadline differs", f.where())
            if s1:
                okp = any(r["k"] == "call" and r["call"].bb == a.poll.bb for r in f.origins(s1[0][1]["rv"]["ops"][0]))
                run.check(okp, key + "|success-payload-deadline", "Success carries the awaited reply", "Success payload is not the awaited value", f.where())
    for a in awaits(f):
        if a.poll.matches(r"oneshot::Receiver<T> as .*Future>::poll$"):
            n += 1
            e1 = nested_variant_edge(f, a.poll, ["Ready", "Ok"])
            e2 = nested_variant_edge(f, a.poll, ["Ready", "Err"])
            s1, s2 = on(e1, succ), on(e2, serr)
            run.check(len(s1) == 1 and len(s2) == 1 and not on(e1, serr + tout) and not on(e2, succ + tout), key + "|table-no-deadline", "Ok(v)->Success, Err->SenderError", "result table without deadline differs", f.where())
            if s1:
                okp = any(r["k"] == "call" and r["call"].bb == a.poll.bb for r in f.origins(s1[0][1]["rv"]["ops"][0]))
                run.check(okp, key + "|success-payload", "Success carries the awaited reply", "Success payload is not the awaited value", f.where())
    return n


def r3(run, db):
    n = 0
    for f in waiting_bodies(db):
        if f.kind != "coroutine":
            continue
        if not (f.aggregates(adt="CallResult")):
            continue
        run.saw(len(f.blocks), f)
        n += table_check(run, db, f, f.id.replace("ractor::rpc::", ""))
    run.anchor("reply waits", n, 2)      # at least one wait with and one without deadline; call sites may share them


def r4(run, db):
    n = 0
    for f in waiting_bodies(db):
        if f.kind != "coroutine":
            continue
        for c in f.calls():
            if c.callee and re.search(r"concurrency::\w+::timeout$", c.callee):
                n += 1
                root_fn = db.root_of(f)
                roots = deep_origins(db, f, c.args[0])
                good = bool(roots) and all(r["k"] == "arg" and r["fn"].id in (root_fn.id,) or (r["k"] == "upvar" and r["fn"].id.endswith("multi_call::{closure#0}")) for r in roots)
                # parameter index: the Option<Duration> parameter
                okparam = False
                for r in roots:
                    fn_ = r["fn"]
                    if r["k"] == "arg":
                        ty = fn_.local_ty(r["local"])
                        okparam = okparam or ("Option<" in ty and "Duration" in ty)
                    if r["k"] == "upvar":
                        ty = place_ty(db, fn_, [1, ["f:%d" % r["field"]]])
                        okparam = okparam or ("Option<" in ty and "Duration" in ty)
                run.check(good and okparam, "deadline-from-param:%s" % f.id.replace("ractor::rpc::", ""), "the deadline passed to timeout() is the caller's timeout parameter, unmodified",
                          "the wait's deadline does not originate (solely) from the caller's timeout parameter: %s" % [(r["k"], r["call"].name if r["k"] == "call" else "") for r in roots], c.where())
    run.anchor("timeout() waits", n, 1)
    # which branch (deadline / no deadline) is taken: switch on the same parameter
    for f in waiting_bodies(db):
        if f.kind != "coroutine" and not f.id.endswith("multi_call::{closure#0}"):
            continue
        for site, t in f.switches():
            info = f.switch_info(site)
            if info.get("kind") == "enum" and info.get("disc_ty", "").startswith("std::option::Option<") and "Duration" in info.get("disc_ty", ""):
                roots = deep_origins(db, f, info["disc_place"])
                good = bool(roots) and all(r["k"] in ("arg", "upvar") for r in roots)
                run.check(good, "deadline-switch:%s" % f.id.replace("ractor::rpc::", ""), "the deadline/no-deadline decision tests the caller's timeout parameter", "the decision tests a derived value: %s" % [(r["k"], r["call"].name if r["k"] == "call" else "") for r in roots], f.where(t.get("l")))
    # an *unbounded* wait for the reply (a plain `rx.await`) happens only when the caller asked for no deadline: the await, or the
    # creation of the task that performs it, lies on the None edge of a test of the caller's Option<Duration>
    def none_edges(g):
        out = []
        for site, t in g.switches():
            info = g.switch_info(site)
            if info.get("kind") == "enum" and info.get("disc_ty", "").startswith("std::option::Option<") and "Duration" in info.get("disc_ty", "") and "None" in info["edges"]:
                if info["edges"]["None"] != info["edges"].get("Some"):
                    out.append((site.bb, info["edges"]["None"]))
        return out
    npl = 0
    for f in waiting_bodies(db):
        if f.kind != "coroutine":
            continue
        for a in awaits(f):
            if not a.poll.matches(r"oneshot::Receiver<T> as .*Future>::poll$"):
                continue
            npl += 1
            good = any(f.edge_dominates(e, a.poll.site) for e in none_edges(f))
            if not good:
                for par, csite in enclosing_chain(db, f)[1:]:
                    if any(par.edge_dominates(e, csite) for e in none_edges(par)):
                        good = True
                        break
            run.check(good, "unbounded-wait-only-without-deadline:%s" % f.id.replace("ractor::rpc::", ""), "the plain wait for the reply is reachable only when the caller's timeout is None",
                      "a reply is awaited without the caller's deadline although a timeout may have been requested (e.g. one shared timer instead of a deadline per callee)", a.poll.where())
    run.anchor("unbounded reply waits", npl, 1)
    # port From impls keep the duration
    m = 0
    for f in db.crate_fns("ractor"):
        if f.raw.get("impl_trait", "").endswith("convert::From") and (f.raw.get("impl_self") or "").startswith("ractor::port::RpcReplyPort<"):
            for site, s in f.aggregates(adt="RpcReplyPort"):
                m += 1
                vals = dict(zip(s["rv"]["fields"], s["rv"]["ops"]))
                t = vals.get("timeout")
                roots = f.origins(t) if t else []
                has_dur = "Duration" in " ".join(f.raw.get("inputs", []))
                if has_dur:
                    good = len(roots) == 1 and roots[0]["k"] == "agg" and roots[0]["stmt"]["rv"].get("variant") == "Some" and all(r["k"] == "arg" for r in f.origins(roots[0]["stmt"]["rv"]["ops"][0]))
                    run.check(good, "port-keeps-duration:%s" % f.id[:60], "From<(sender, duration)> stores Some(duration) unchanged", "the port does not store the caller's duration unchanged (e.g. filtered/rounded)", f.where(s.get("l")))
                else:
                    good = len(roots) == 1 and roots[0]["k"] == "agg" and roots[0]["stmt"]["rv"].get("variant") == "None"
                    run.check(good, "port-no-duration:%s" % f.id[:60], "From<sender> stores None", "From<sender> stores a timeout", f.where(s.get("l")))
    run.anchor("RpcReplyPort From impls", m, 2)


def r5(run, db):
    mc = [f for f in db.find(r"^ractor::rpc::multi_call::\{closure#0\}$")]
    run.anchor("multi_call body", len(mc), 1)
    f = mc[0]
    run.saw(len(f.blocks), f)
    nx = [c for c in f.calls() if c.matches(r"Enumerate<I> as std::iter::Iterator>::next$")]
    run.anchor("enumerate next", len(nx), 1)
    kids = [ch for ch in db.children(f.id) if ch.kind == "coroutine"]
    n = 0
    for ch in kids:
        for par, site, s in creation_sites(db, ch):
            srcs = []
            for o in s["rv"]["ops"]:
                for r in f.origins(o):
                    if r["k"] == "call" and nx and r["call"].bb == nx[0].bb:
                        srcs.append("".join(e.split(":")[1] for e in r["proj"] if e.startswith("f:") ))
            if srcs:
                n += 1
                run.check(sorted(set(x[-1:] for x in srcs)) == ["0", "1"], "item-threaded:%s" % ch.id.split("::")[-1], "the spawned wait captures index (.0) and receiver (.1) of the same enumerate item", "spawned wait captures %s of the item" % srcs, f.where(s.get("l")))
        # the tuple returned: (i, result) with i = captured index
        tups = [s for _, s in ch.aggregates(kind="tuple") if len(s["rv"]["ops"]) == 2]
        for s in tups:
            r0 = ch.origins(s["rv"]["ops"][0])
            if any(r["k"] == "upvar" for r in r0):
                ty = place_ty(db, ch, [1, ["f:%d" % r0[0]["field"]]])
                run.check(ty == "usize", "returns-index:%s" % ch.id.split("::")[-1], "the wait returns its captured index with the result", "first tuple component is %s" % ty, ch.where(s.get("l")))
    run.anchor("spawned waits", n, 1)      # one per spawn site; both timeout branches may share a site
    # result vector writes
    jn = [c for c in f.calls() if c.matches(r"JoinSet::<T>::join_next$")]
    res_locals = [i for i, l in enumerate(f.locals) if re.match(r"^std::vec::Vec<ractor::rpc::call_result::CallResult<", l["ty"])]
    writes = []
    for c in f.calls():
        if c.matches(r"Vec::<T, A>::(push|insert|extend\w*|append|resize_with|resize|truncate|clear|swap|swap_remove|remove|pop)$|IndexMut<I>>::index_mut$|Extend"):
            for r in f.origins(c.args[0]):
                if r["k"] in ("agg", "call") or True:
                    pass
            p = None
            for r in f.origins(c.args[0]):
                pass
            base = op_place(c.args[0])
            tgt = set()
            for r in f.origins(c.args[0]):
                if r["k"] == "call" and r["call"].matches(r"Vec::<T>::new$|Vec::<T>::with_capacity$"):
                    tgt.add(r["call"].dest[0])
            if any(t in res_locals for t in tgt):
                writes.append(c)
    run.anchor("result vector writes", len(writes), 2)
    aw = await_of_call(f, jn[0]) if jn else []
    for c in writes:
        meth = c.name.split("::")[-1]
        if meth == "resize_with":
            run.ok("results|resize", "results are pre-sized with resize_with(join_set.len(), ..)", c.where())
        elif meth == "index_mut":
            okidx = aw and any(r["k"] == "call" and r["call"].bb == aw[0].poll.bb and any(e.startswith("f:0") for e in r["proj"][-2:]) for r in f.origins(c.args[1]))
            run.check(bool(okidx), "results|indexed-by-returned-index", "results[i] uses the index returned by the completed wait (request order, not completion order)", "results are indexed by something other than the wait's own index", c.where())
        else:
            run.fail("results|%s" % meth, "the result vector is modified with %s: replies would be ordered by completion, not by request" % meth, c.where())


def r6(run, db):
    fs = [f for f in db.find(r"^ractor::rpc::call_and_forward::\{closure#0\}$")]
    run.anchor("call_and_forward wait block", len(fs), 1)
    f = fs[0]
    # the forwarding send happens at most once, and only for a Success reply: inside the closure handed to CallResult::map
    # (which applies it to Success only, checked below), or written out behind the Success edge of a match on the reply
    maps = [c for c in f.calls() if c.matches(r"CallResult::<T>::map$")]
    map_closures = set()
    for mc in maps:
        for r in f.origins(mc.args[1]):
            if r["k"] == "agg" and r["stmt"]["rv"].get("kind") == "closure":
                map_closures.add(r["stmt"]["rv"]["def"])
    sends = []
    for ch in db.family(f.id):
        sends += [(ch, c) for c in ch.calls() if c.is_("ActorCell::send_message")]
    run.check(len(sends) == 1 and not sends[0][0].in_cycle(sends[0][1].site) and not any(f.in_cycle(mc.site) for mc in maps), "forward-once", "exactly one forwarding send, not in a cycle", "%d forwarding sends" % len(sends), f.where())
    for ch, c in sends:
        UNCOND = ("forward-unconditional", "a Success reply is forwarded on every path (no status or other short-cut around the forwarding send)",
                  "call_and_forward can drop a Success reply: a path from the received reply to the end avoids the forwarding send (e.g. a liveness pre-check of the forward target, which also refuses an Unstarted target that would have queued it): the reply is consumed from the port and forwarded zero times")
        if ch.id in map_closures:
            run.ok("forward-on-success", "the forwarding send is the body of the closure applied by CallResult::map", c.where())
            run.check(ch.must_pass(ch.entry(), [c.site]), UNCOND[0], UNCOND[1], UNCOND[2], c.where())
            continue
        good = False
        if ch.id == f.id:
            for site, t in f.switches():
                info = f.switch_info(site)
                e = info.get("edges", {})
                if info.get("kind") == "enum" and "Success" in e and "Timeout" in e and "SenderError" in e:
                    if f.edge_dominates((site.bb, e["Success"]), c.site) and e["Success"] not in [v for k_, v in e.items() if k_ != "Success"]:
                        good = True
                        run.check(f.must_pass(Site(e["Success"], 0), [c.site]), UNCOND[0], UNCOND[1], UNCOND[2], c.where())
        run.check(good, "forward-on-success", "the forwarding send lies behind the Success edge of a match on the reply", "a forwarding send bypasses the Success mapping", c.where())
    mp = [g for g in db.crate_fns("ractor") if g.id.endswith("CallResult::<T>::map")]
    for g in mp:
        calls = [c for c in g.calls() if c.matches(r"FnOnce::call_once$")]
        sw = [s for s in g.switches()]
        good = len(calls) == 1 and any(g.switch_info(s[0]).get("edges", {}).get("Success") is not None and g.edge_dominates((s[0].bb, g.switch_info(s[0])["edges"]["Success"]), calls[0].site) for s in sw if g.switch_info(s[0]).get("kind") == "enum")
        run.check(good, "map-on-success-only", "CallResult::map applies the mapping only to Success", "CallResult::map applies the mapping on other variants", g.where())


def r8(run, db):
    """a failed send must return at once: the Err carries the message and with it the reply port, so awaiting the receiver
    while that value is alive would never complete"""
    f = db.fn("ractor::rpc::internal_call::{closure#0}")
    if f is None:
        run.fail("anchor:internal_call wait block", "internal_call::{closure#0} not found")
        return
    run.saw(len(f.blocks), f)
    brs = result_decisions(f, lambda r: r["k"] == "upvar")
    run.check(len(brs) == 1, "send-result-checked", "the wait block checks the send result (`sent?` or a match on it) once", "the wait block does not check the send result", f.where())
    if brs:
        cont = brs[0]["cont_edge"]
        for a in awaits(f):
            run.check(cont and f.edge_dominates(cont, a.poll.site), "await-only-after-send-ok@%d" % a.poll.bb, "every await of the reply lies on the Ok edge of the send result",
                      "the reply is awaited although the send failed: the refused message (and the reply port inside it) is still alive, so the caller hangs", a.poll.where())
    # internal_call itself: the send happens before the wait block is created, exactly once
    g = db.fn("ractor::rpc::internal_call")
    if g:
        snd = [c for c in g.calls() if c.matches(r"ops::Fn::call$|ops::FnOnce::call_once$|ops::FnMut::call_mut$")]
        cs = creation_sites(db, f)
        run.check(len(snd) == 2 and cs and all(g.dominates(c.site, cs[0][1]) for c in snd) and not any(g.in_cycle(c.site) for c in snd), "send-before-wait", "the message is built and sent exactly once, before the wait block exists", "internal_call send/build shape changed", g.where())


def r9(run, db):
    """multi_call: a refused send must end the call at once.  The Err carries the undelivered message and with it the reply
    port of that callee, so any wait performed while it is alive can only end by deadline (or never)."""
    f = db.fn("ractor::rpc::multi_call::{closure#0}")
    if f is None:
        run.fail("anchor:multi_call body", "multi_call::{closure#0} not found")
        return
    run.saw(len(f.blocks), f)
    sends = [c for c in f.calls() if c.matches(r"ActorRef<TMessage>>::cast$|ActorRef<TMessage>>::send_message$|ActorCell::send_message$")]
    run.anchor("multi_call sends", len(sends), 1, f.where())
    waits = set(a.poll.site for a in awaits(f)) | set(c.site for c in f.calls() if c.matches(r"JoinSet::<T>::spawn\w*$|::spawn$|JoinSet<T>::spawn$"))
    run.anchor("multi_call waits/spawns", len(waits), 2, f.where())     # at least one spawn and the join_next await
    for c in sends:
        edges = [b["break_edge"] for b in try_branches_on(f, c) if b["break_edge"]]
        e2 = nested_variant_edge(f, c, ["Err"])
        if e2:
            edges.append(e2)
        run.check(bool(edges), "multi|send-result-tested", "the result of each send is tested", "a send result in multi_call is never tested: a dead callee goes unnoticed and its reply is awaited", c.where())
        for e in edges:
            reach = edge_path_sites(f, [e])        # (paths on which the values built along the way are read back consistently)
            bad = sorted(waits & reach)
            run.check(not bad, "multi|refused-send-returns-at-once", "on the refused-send edge no reply is awaited and no waiter is spawned before the function returns",
                      "after a refused send multi_call goes on to wait for replies (sites %s) while the refused message, and the reply port inside it, is still alive: that callee's receiver can never observe a closed port" % [str(x) for x in bad[:4]], c.where())


def r10(run, db):
    """the exported macros (macro_rules!, so only analysable where expanded: witness/derive::rpc_macros)"""
    n = 0
    for f in db.fns.values():
        m = re.search(r"rpc_macros::(call_t_arm\d|call_arm\d|forward_timed|forward_untimed)::\{closure#0\}$", f.id)
        if not m:
            continue
        nm = m.group(1)
        cs = [c for c in f.calls() if c.matches(r"ActorRef<TMessage>>::call$|ActorRef<TMessage>>::call_and_forward$")]
        run.check(len(cs) == 1, nm + "|one-call", "%s expands to one call" % nm, "%s expands to %d calls" % (nm, len(cs)), f.where())
        if not cs:
            continue
        n += 1
        c = cs[0]
        to = c.args[-1]
        roots = f.origins(to)
        if nm.startswith("call_t") or nm == "forward_timed":
            good = len(roots) == 1 and roots[0]["k"] == "agg" and roots[0]["stmt"]["rv"].get("variant") == "Some"
            src = []
            if good:
                inner = f.origins(roots[0]["stmt"]["rv"]["ops"][0], through=lambda c: 0 if c.matches(r"Duration::from_millis$") else None)
                src = inner
                good = bool(inner) and all(r["k"] == "upvar" and r["field"] == (1 if nm.startswith("call_t") else 2) for r in inner)
            run.check(good, nm + "|timeout-forwarded", "the macro's timeout argument reaches the call as Some(duration)",
                      "the %s arm of the macro does not pass its timeout to the call (%s): the call is unbounded" % (nm, [(r["k"], r.get("field")) for r in (src or roots)]), c.where())
        else:
            good = len(roots) == 1 and roots[0]["k"] == "agg" and roots[0]["stmt"]["rv"].get("variant") == "None"
            run.check(good, nm + "|no-timeout", "the untimed arm passes None", None, c.where())
        # the builder closure puts the reply port last and forwards the user's arguments
    run.anchor("macro witnesses", n, 7)


def r7(run, db):
    c08.r5(run, db)
    from . import c07
    c07.r6(run, db)
    # a kill / stop of the callee is always delivered (whatever its status): otherwise queued requests of a callee that is
    # stuck in post_stop are never flushed and an untimed caller hangs
    from . import c03
    c03.r6(run, db)


Q = ["dflt", "rc"]
TH = ["dflt", "rc", "atr", "astd"]
RULES = [{"id": "C09.R%d" % i, "fn": f, "quick": Q, "thorough": TH} for i, f in enumerate([r1, r2, r3, r4, r5, r6, r7, r8, r9], 1)]
RULES.append({"id": "C09.R10", "fn": r10, "quick": ["gen"], "thorough": ["gen"]})
from .etype import witness_rule
RULES.append({"id": "C09.W", "fn": witness_rule(['W1ReplyOnce', 'W2ReplyNoClone']), "quick": [], "thorough": [], "no_db": True})
DOC["C09.W"] = 'E-TYPE witnesses W1 (second send on a reply port is E0382) and W2 (clone of a reply port is E0599), each with a compiling twin'

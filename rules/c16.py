"""C16 -- Output ports fan out in order without duplicates (structural clauses)."""
import re
from .model import *
from .bits import cmp_tests
from .facts import Site, op_place, Call, proj_field_name
from .futflow import ROOT_RX

EXPLANATION = ("decides necessary structural conditions only, for both port implementations: publishing is a synchronous function whose call closure "
               "reaches no blocking primitive and no await; each subscription is served by exactly one forwarding task created once; inside the forwarder "
               "every received message reaches the converter/cast (the only way out of the Some(msg) branch is a failed cast), a failed cast / closed / None "
               "ends the task, Lagged re-enters the loop; no task is spawned per message, so deliveries to one subscriber are sequential and order / "
               "no-duplication reduce to the channel's FIFO (trusted) and C02 of the subscriber; dead subscriptions are pruned only when finished. v2: a "
               "subscriber whose send returns false is removed and the loop continues with the next; subscription changes are applied at their position; the "
               "batch buffer is cleared on every exit of dispatch_batch (no message is dispatched twice). NOT decided: what a lagging subscriber misses; "
               "ordering across the publisher/forwarder race.")
TRUSTED = ["tokio broadcast / mpsc deliver in send order", "C02 for the subscriber's mailbox"]
ASSUMPTIONS = ["converters are arbitrary total functions"]

DOC = {
 "C16.R1": "OutputPort::send is not async and its call closure inside the crate reaches no blocking call (locks, condvars, thread::sleep, block_on) and creates no coroutine",
 "C16.R2": "v1 forwarder: on Ok(Some(msg)) every path to an exit passes through the cast; a failed cast returns; Ok(None)/Closed return; Lagged loops",
 "C16.R3": "no task spawn inside the forwarder cycle (v1) or inside dispatch_batch (v2)",
 "C16.R4": "one forwarder task per subscription: the spawn in the subscription constructor is unique and not in a cycle; subscribe prunes with retain(!is_dead) where is_dead = handle.is_finished()",
 "C16.R7": "v2: every library caller of the fan-out task selects `keep duplicate subscriptions` (the mode flag is the constant true wherever it is not passed through): a second subscription of one actor never replaces the first, so no converter-mapped publication is skipped for it",
 "C16.R6": "v2 Subscriber::send implementations return only the delivery result or the constant true (filtered-out message keeps the subscription)",
 "C16.R5": "v2 dispatch_batch: batch.clear() lies on every path to the exit; a false send removes that subscriber; SetSubscriber is applied after the preceding data segment and before the next; fan-out loop calls dispatch_batch once per received batch",
}

BLOCKING = re.compile(r"std::sync::Mutex::<T>::lock$|std::sync::RwLock::<T>::(read|write)$|Condvar::wait|thread::sleep$|blocking_|block_on$|thread::park|std::sync::mpsc::.*recv|JoinHandle::<T>::join$")


def port_send_fns(db):
    return [f for f in db.crate_fns("ractor") if f.kind == "method" and f.id.endswith("OutputPort::<TMsg>::send") or re.search(r"output::v2::inner::OutputPort::<Id, TMsg>::send$", f.id)]


def r1(run, db):
    ss = port_send_fns(db)
    run.anchor("OutputPort::send", len(ss), 1)
    for f in ss:
        run.saw(len(f.blocks), f)
        run.check(not f.raw.get("is_async"), "sync:%s" % f.id, "%s is a synchronous function" % f.id, "%s became async" % f.id, f.where())
        reach = db.reach_fns([f.id])
        bad = []
        cor = []
        for fid in reach:
            g = db.fns[fid]
            if g.kind == "coroutine":
                cor.append(fid)
            for c in g.calls():
                if BLOCKING.search(c.callee or "") or (c.resolved and BLOCKING.search(c.resolved)):
                    bad.append("%s in %s" % (c.name, fid))
        run.check(not bad and not cor, "nonblocking:%s" % f.id, "call closure of %s (%d bodies) reaches no blocking primitive and no await" % (f.id, len(reach)),
                  "publishing can block: %s %s" % (bad, cor), f.where())


def forwarders_v1(db):
    """the body of the task that OutputPortSubscription::new spawns (written in place, or a local async fn spawned there)"""
    out = []
    for f in db.crate_fns("ractor"):
        if re.search(r"output::v1::OutputPortSubscription::new$", f.id):
            for c, g in spawned_coroutines(db, f):
                if g.id not in [x.id for x in out]:
                    out.append(g)
    return out


def r2(run, db):
    fw = forwarders_v1(db)
    if not fw:
        if db.tag == "opv2":
            run.ok("v1-absent", "the default port is not compiled in this configuration")
            return
        run.fail("anchor:v1 forwarder", "v1 forwarder coroutine not found")
        return
    for f in fw:
        run.saw(len(f.blocks), f)
        rc = [c for c in f.calls() if c.matches(r"broadcast::Receiver::<T>::recv$")]
        cast = [c for c in f.calls() if c.matches(r"::cast$")]
        conv = [c for c in f.calls() if c.matches(r"ops::Fn::call$|ops::FnMut::call_mut$")]
        run.check(len(rc) == 1 and len(cast) == 1 and len(conv) == 1 and f.in_cycle(rc[0].site), "v1|shape", "one recv in a cycle, one converter call, one cast", "forwarder shape: %d recv, %d cast, %d converter" % (len(rc), len(cast), len(conv)), f.where())
        if not (rc and cast and conv):
            continue
        aw = await_of_call(f, rc[0])
        if not aw:
            run.fail("v1|recv-await", "await of recv not found", f.where())
            continue
        poll = aw[0].poll
        some = nested_variant_edge(f, poll, ["Ready", "Ok", "Some"])
        run.check(some is not None and all_paths_from_edge_pass(f, some, [conv[0].site], to_sites=f.exits() + [rc[0].site]), "v1|every-message-converted",
                  "every received message reaches the converter (no early exit or skip before it)", "a received message can be skipped, or the task can end, before the converter runs: a live subscriber silently loses messages", f.where())
        ce = nested_variant_edge(f, conv[0], ["Some"])
        run.check(ce is not None and all_paths_from_edge_pass(f, ce, [cast[0].site], to_sites=f.exits() + [rc[0].site]), "v1|converted-is-cast", "every converted message is cast to the subscriber", "a converted message can be dropped", f.where())
        ne = nested_variant_edge(f, conv[0], ["None"])
        run.check(ne is not None and rc[0].site in edge_path_sites(f, [ne]), "v1|none-skips", "a message the converter maps to None is skipped and the loop continues", None, f.where())
        # the edges on which the cast is known to have failed / succeeded: `cast(..).is_err()` true, `.is_ok()` false, or the
        # Err / Ok arm of a match on its result -- also when the answer is recorded in a flag first
        fail_edges, ok_edges = [], []
        for c in f.calls():
            if c.matches(r"Result::<T, E>::(is_err|is_ok)$") and any(r["k"] == "call" and r["call"].bb == cast[0].bb for r in f.origins(c.args[0])):
                te_, fe_ = implied_edges(f, c)
                if c.matches(r"is_err$"):
                    fail_edges.append(te_); ok_edges.append(fe_)
                else:
                    fail_edges.append(fe_); ok_edges.append(te_)
        fail_edges.append(nested_variant_edge(f, cast[0], ["Err"])); ok_edges.append(nested_variant_edge(f, cast[0], ["Ok"]))
        fail_edges = [e_ for e_ in fail_edges if e_]
        ok_edges = [e_ for e_ in ok_edges if e_]
        good = any(rc[0].site not in edge_path_sites(f, [e_]) for e_ in fail_edges)
        run.check(good, "v1|dead-subscriber-ends-task", "a failed cast ends the forwarding task (the subscription becomes prunable)", "a failed cast does not end the forwarder", f.where())
        good2 = any(rc[0].site in edge_path_sites(f, [e_]) for e_ in ok_edges)
        run.check(good2, "v1|ok-continues", "a successful cast continues the loop", None, f.where())
        # exits of the loop: only the failed cast, Ok(None), Err(Closed)
        lag = nested_variant_edge(f, poll, ["Ready", "Err", "Lagged"])
        clo = nested_variant_edge(f, poll, ["Ready", "Err", "Closed"])
        non = nested_variant_edge(f, poll, ["Ready", "Ok", "None"])
        run.check(lag is not None and rc[0].site in edge_path_sites(f, [lag]) and not any(Site(bb_, f.nstmts(bb_)) in set(f.exits()) for bb_ in f.feasible_blocks_from(lag[1], stop_blocks=[rc[0].site.bb])), "v1|lagged-continues", "Lagged re-enters the loop (later messages still arrive in order)", "Lagged ends the subscription", f.where())
        run.check(clo is not None and rc[0].site not in edge_path_sites(f, [clo]), "v1|closed-ends", "Closed ends the task", None, f.where())
        run.check(non is not None and rc[0].site not in edge_path_sites(f, [non]), "v1|none-ends", "the None sentinel ends the task", None, f.where())
        # the subscriber's status is not consulted (delivery is decided by the mailbox, C02)
        gs = [c for c in f.calls() if c.is_("get_status")]
        run.check(not gs, "v1|no-status-shortcut", "the forwarder does not second-guess the subscriber's lifecycle status (the mailbox's own gate decides)", "the forwarder drops subscriptions based on a status read: an actor that is still Starting is alive and must keep receiving", f.where())


def r3(run, db):
    n = 0
    for f in forwarders_v1(db):
        n += 1
        sp = [c for c in f.calls() if ROOT_RX.match(c.callee or "") or (c.callee or "").startswith("ractor::concurrency::") and re.search(r"::spawn\w*$", c.callee or "")]
        run.check(not sp, "v1|no-spawn-per-message", "the forwarder spawns no task", "the forwarder spawns tasks (%s): deliveries to one subscriber can overtake each other" % [c.name for c in sp], f.where())
    for f in db.crate_fns("ractor"):
        if re.search(r"output::v2::inner::dispatch_batch(::\{closure#0\})?$", f.id):
            n += 1
            sp = [c for c in f.calls() if ROOT_RX.match(c.callee or "") or re.search(r"concurrency::\w+::spawn\w*$", c.callee or "")]
            run.check(not sp, "v2|no-spawn-in-dispatch", "dispatch_batch spawns no task", "dispatch_batch spawns tasks", f.where())
    run.anchor("forwarding bodies", n, 1)


def r4(run, db):
    if db.tag == "opv2":
        news = [f for f in db.crate_fns("ractor") if re.search(r"output::v2::inner::OutputPort::<Id, TMsg>::new$", f.id)]
        run.anchor("v2 port constructor", len(news), 1)
        for f in news:
            sp = [c for c in f.calls() if re.search(r"concurrency::\w+::spawn$", c.callee or "")]
            run.check(len(sp) == 1 and not f.in_cycle(sp[0].site), "v2|one-fanout-task", "one fan-out task per port", "%d fan-out spawns" % len(sp), f.where())
        return
    news = [f for f in db.crate_fns("ractor") if re.search(r"output::v1::OutputPortSubscription::new$", f.id)]
    run.anchor("subscription constructor", len(news), 1)
    for f in news:
        sp = [c for c in f.calls() if re.search(r"concurrency::\w+::spawn$", c.callee or "")]
        run.check(len(sp) == 1 and not f.in_cycle(sp[0].site), "v1|one-forwarder", "one forwarder task per subscription", "%d spawns" % len(sp), f.where())
    subs = [f for f in db.crate_fns("ractor") if re.search(r"output::v1::OutputPort::<TMsg>::subscribe$", f.id)]
    run.anchor("subscribe", len(subs), 1)
    for f in subs:
        rt = [c for c in f.calls() if c.matches(r"Vec::<T, A>::retain$")]
        nw = [c for c in f.calls() if c.callee and c.callee.endswith("OutputPortSubscription::new")]
        ps = [c for c in f.calls() if c.matches(r"Vec::<T, A>::push$")]
        run.check(len(rt) == 1 and len(nw) == 1 and len(ps) == 1 and not f.in_cycle(nw[0].site), "v1|subscribe-shape", "subscribe: prune, create one subscription, push it", "subscribe shape changed", f.where())
        for g in db.children(f.id):
            dead = [c for c in g.calls() if c.callee and c.callee.endswith("::is_dead")]
            if dead:
                neg = any(s["k"] == "assign" and s["rv"]["k"] == "un" and s["rv"]["op"] == "Not" for _, s in g.stmts())
                run.check(len(dead) == 1 and neg and len(g.calls()) == 1, "v1|prune-only-dead", "subscriptions are retained unless is_dead()", "prune predicate changed", g.where())
        # the subscription receives a fresh broadcast receiver created now
        if nw:
            okr = any(r["k"] == "call" and r["call"].matches(r"broadcast::Sender::<T>::subscribe$") for r in f.origins(nw[0].args[0]))
            run.check(okr, "v1|fresh-receiver", "the subscription starts at the current tail of the broadcast channel (messages published after the subscription)", None, f.where())
    dd = [f for f in db.crate_fns("ractor") if re.search(r"OutputPortSubscription::is_dead$", f.id)]
    for f in dd:
        run.check(any(c.matches(r"JoinHandle::<T>::is_finished$") for c in f.calls()) and len(f.calls()) == 1, "v1|is_dead=is_finished", "is_dead() = the forwarder task finished", "is_dead() changed", f.where())


def r5(run, db):
    if db.tag != "opv2":
        run.ok("v2-absent", "the v2 port is compiled only with feature output-port-v2 (analysed under tag opv2)")
        return
    fs = [f for f in db.crate_fns("ractor") if re.search(r"output::v2::inner::dispatch_batch::\{closure#0\}$", f.id)]
    run.anchor("dispatch_batch", len(fs), 1)
    for f in fs:
        run.saw(len(f.blocks), f)
        cl = [c for c in f.calls() if c.matches(r"Vec::<T, A>::clear$")]
        run.check(len(cl) >= 1 and f.must_pass(f.entry(), [c.site for c in cl]), "v2|batch-cleared-on-every-exit", "every path through dispatch_batch clears the batch buffer before returning",
                  "an exit of dispatch_batch leaves already-dispatched messages in the reused buffer: they are dispatched again with the next batch (duplicates, out of order)", f.where())
        snd = [c for c in f.calls() if c.matches(r"Subscriber::send$")]
        rm = [c for c in f.calls() if c.matches(r"Vec::<T, A>::remove$")]
        ap = [c for c in f.calls() if c.callee and c.callee.endswith("::apply_subscriber")]
        run.check(len(snd) == 1 and len(rm) == 1 and len(ap) == 1, "v2|shape", "one send site, one subscriber removal, one apply_subscriber", "dispatch_batch shape: %d sends %d removes %d applies" % (len(snd), len(rm), len(ap)), f.where())
        if snd and rm:
            # removal only when a send returned false
            fe = false_edge(f, snd[0])
            # (edge_dominates follows the decision through a recorded flag: `retain = false; break` .. `if !retain { remove }`)
            run.check(bool(fe and f.edge_dominates(fe, rm[0].site)), "v2|remove-on-false", "a subscriber is removed only after its send returned false", None, f.where())
            run.check(f.in_cycle(snd[0].site) and f.in_cycle(rm[0].site), "v2|continues-with-next", "removal happens inside the subscriber loop (delivery to the others continues)", None, f.where())
        if snd and ap:
            run.check(f.in_cycle(ap[0].site) and f.reaches_after(snd[0].site, ap[0].site) and f.reaches_after(ap[0].site, snd[0].site), "v2|subscription-at-position", "a SetSubscriber is applied between the data segment before it and the one after it", None, f.where())
    loops = [f for f in db.crate_fns("ractor") if re.search(r"output::v2::inner::OutputPort::<Id, TMsg>::new::\{closure#0\}$", f.id)]
    for f in loops:
        rm_ = [c for c in f.calls() if c.matches(r"UnboundedReceiver::<T>::recv_many$")]
        dp = [c for c in f.calls() if c.callee and c.callee.endswith("::dispatch_batch")]
        run.check(len(rm_) == 1 and len(dp) == 1 and f.in_cycle(dp[0].site) and f.reaches_after(rm_[0].site, dp[0].site), "v2|loop", "fan-out loop: recv_many then dispatch_batch, once per batch", "fan-out loop shape changed", f.where())
        if rm_ and dp:
            # every non-empty batch is dispatched: from the completion of recv_many no path returns to the next recv_many
            # without passing dispatch_batch (a batch can hold subscriptions behind data, so nothing may be skipped whole)
            aw = await_of_call(f, rm_[0])
            ok = bool(aw)
            for a in aw:
                zt = [t for t in cmp_tests(f) if t["op"] == "Eq" and t["b"] == ("c", 0) and t["a"][0] == "call" and t["a"][1].bb == a.poll.bb or (t["op"] == "Eq" and t["b"] == ("c", 0))]
                nonzero = [t["false_edge"] for t in zt if t["false_edge"]]
                # `match n { 0 => break, _ => dispatch }`: an integer switch on the count
                for ssite, st_ in f.switches():
                    info = f.switch_info(ssite)
                    if info.get("kind") == "int" and "0" in info["edges"] and info["edges"].get("otherwise") is not None and info["edges"]["otherwise"] != info["edges"]["0"]:
                        if any(r["k"] == "call" and r["call"].bb == a.poll.bb for r in f.origins(st_["discr"], through=THROUGH_TRY)):
                            nonzero.append((ssite.bb, info["edges"]["otherwise"]))
                ok = ok and bool(nonzero) and all(f.must_pass(Site(e[1], 0), [dp[0].site], to_sites=[rm_[0].site] + f.exits()) for e in nonzero)
            run.check(ok, "v2|every-batch-dispatched", "every non-empty batch received is handed to dispatch_batch (no path back to recv_many around it)",
                      "the fan-out loop can discard a received batch without dispatching it (e.g. a fast path for `no subscribers` that looks only at the first entry): a subscription queued behind a publication in that batch is lost", dp[0].where())


def r6(run, db):
    """v2: a subscriber's send() verdict is the only reason a subscriber is dropped (R5), so it may be false only when the
    delivery to the actor failed; in particular a message the converter filtered out (None) must keep the subscription"""
    if db.tag != "opv2":
        run.ok("v2-absent", "the v2 port is compiled only with feature output-port-v2 (analysed under tag opv2)")
        return
    impls = [f for f in db.crate_fns("ractor") if (f.raw.get("trait_item") or "").endswith("v2::inner::Subscriber::send") or re.search(r"Subscriber<.*>>::send$", f.id)]
    run.anchor("Subscriber::send implementations", len(impls), 1)
    for f in impls:
        run.saw(len(f.blocks), f)
        roots = f.origins([0, []])
        bad = []
        for r in roots:
            if r["k"] == "const" and f.value_consts(r["op"]) in (["true"], [True], ["1"]) or (r["k"] == "const" and str(r["op"].get("val", r["op"].get("repr", ""))).strip() in ("true", "const true")):
                continue
            if r["k"] == "call" and (r["call"].matches(r"ActorReference::send_message$") or r["call"].matches(r"Result::<T, E>::is_ok$")):
                continue
            if r["k"] == "call" and r["call"].matches(r"Option::<T>::is_none_or$"):
                continue
            if r["k"] == "call" and r["call"].matches(r"Option::<T>::map_or$") and f.value_consts(r["call"].args[1]) in (["true"], [True]):
                continue
            bad.append(r["call"].name if r["k"] == "call" else "%s %s" % (r["k"], r.get("op")))
        run.check(not bad and bool(roots), "send-verdict:%s" % (f.raw.get("impl_self") or f.id)[:60].split("::")[-1], "send() returns the delivery result, or true when the converter filtered the message out",
                  "send() of %s can return a verdict that is not the delivery result (%s): a subscriber whose converter returns None for one message is unsubscribed and misses every later publication" % (f.id.split(" as ")[0].split("::")[-1], bad), f.where())


def r7(run, db):
    """v2: a second subscription of the same actor is a subscription of its own (as with the default port); the
    replace-on-equal-id mode of the fan-out task exists for tests only, so every library caller selects `keep duplicates`"""
    if db.tag != "opv2":
        run.ok("v2-absent", "the v2 port is compiled only with feature output-port-v2 (analysed under tag opv2)")
        return
    inner = [f for f in db.crate_fns("ractor") if "port::output::v2::inner::" in f.id and f.kind in ("fn", "method")]
    run.anchor("v2 fan-out functions", len(inner), 3)
    modal = [f for f in inner if any(f.local_ty(i) == "bool" for i in range(1, f.arg_count + 1))]
    if not modal:
        run.ok("no-dedup-mode", "no function of the v2 fan-out takes a mode flag: subscriptions are never replaced")
        return
    n = 0
    for f in db.crate_fns("ractor"):
        if f.raw.get("in_test") or "::tests::" in f.id:
            continue
        for c in f.calls():
            g = db.fns.get(c.resolved or c.callee) or db.fns.get(c.callee)
            if g is None or g not in modal:
                continue
            for i, a in enumerate(c.args):
                if g.local_ty(i + 1) != "bool":
                    continue
                rr = f.origins(a)
                if all(r["k"] in ("arg", "upvar") for r in rr) and rr:
                    continue            # passed through from the caller's own mode parameter
                n += 1
                vals = f.value_consts(a)
                run.check(bool(vals) and all(v in ("true", True, "1") for v in vals) and all(r["k"] == "const" for r in rr),
                          "dup-mode:%s" % f.id.split("::")[-2 if f.kind != "closure" else -3][:50] + "->" + g.id.split("::")[-1],
                          "%s selects `keep duplicate subscriptions` (constant true)" % f.id,
                          "%s starts the v2 fan-out with allow_duplicate_subscription = %s: a second subscription of the same actor replaces the first, whose converter then never sees another publication (the v2 port must skip none; the default port keeps both)" % (f.id, vals or "a non-constant"), c.where())
    run.anchor("library callers choosing the subscription mode", n, 1)


Q = ["dflt", "opv2"]
TH = ["dflt", "opv2", "rc", "astd"]
RULES = [{"id": "C16.R%d" % i, "fn": f, "quick": Q, "thorough": TH} for i, f in enumerate([r1, r2, r3, r4, r5, r6, r7], 1)]

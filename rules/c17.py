"""C17 -- Cluster: nothing from a peer takes effect before authentication."""
import re
from .model import *
from .facts import Site, op_place, Call, proj_field_name
from .fields import fields

EXPLANATION = ("The property is a conjunction over every handler of every frame type in every auth state; statically it splits into (a) the two handshake "
               "machines are small pure transition functions whose transition table is read off MIR: the authenticated state is constructible only behind a "
               "length-aware byte equality between the stored challenge digest and the peer's reply, every non-legal (state, message) pair yields Close and "
               "Close/Ok are absorbing; (b) the session's gate: every effect reachable from a network frame in handle_node / handle_control is dominated by "
               "the true edge of is_ok(), whose body answers true only for the two Ok variants; the post-auth synchronisation runs only on the "
               "not-authenticated -> authenticated transition; the auth field is assigned only from the machines' own transition results; (c) the allow-list: "
               "casts and calls reach only the cell returned on the Some edge of the advertised-pid lookup, which answers Some only for pids in the "
               "advertised set that support remoting, and that set is written only from local lifecycle events and the post-auth scan; GetSessions lists "
               "only sessions in the authenticated set, which only the commit function fills.")
TRUSTED = ["SHA-256 (sha2 crate): cryptographic strength is not analysed; which bytes are hashed is (C17.R8)", "prost decoding of frames"]
ASSUMPTIONS = ["that sequences of frames cannot reach Ok is decided by the (finite) transition table, not by enumerating sequences"]

DOC = {
 "C17.R1": "the Ok variant of each auth machine is constructed in exactly one body, on the challenge-reply / challenge-ack state edge and on the true edge of a length-aware byte equality whose operands originate from the stored digest and the message's digest field",
 "C17.R2": "transition tables of both `next` functions and start_challenge: every non-Close result is dominated by exactly its legal (message variant, state variant) edges; Close and Ok have no outgoing non-Close row",
 "C17.R3": "gate: handle_node / handle_control test is_ok() first and every other call lies on its true edge; is_ok() is true only for the Ok variants; after_authenticated and ConnectionAuthenticated only under !was_ok && is_ok()",
 "C17.R4": "every assignment to the session's auth field is AsClient(next(..)) / AsServer(next(..)/start_challenge(..)) or init(); handle_auth returns early when already authenticated",
 "C17.R5": "allow-list: send_serialized receivers in the Cast/Call arms originate from the Some payload of authorized_local_actor, which returns Some only on advertised.contains(pid) and supports_remoting; the advertised set is written only from local pid events and the post-auth scan",
 "C17.R6": "GetSessions inserts only on the true edge of authenticated_sessions.contains; that set is inserted into only by commit_authenticated, called only from the ConnectionAuthenticated arm",
 "C17.R8": "challenge_digest feeds the hash the complete cookie (as_bytes of the parameter, no slicing/capping) and the complete challenge; the hash consumes the assembled buffer whole",
 "C17.R9": "the keyed input of the handshake digest is bound to the exchange: handle_auth derives the secret it gives the auth machines from more than the bare cookie (a call combining it with the endpoint names / role), or challenge_digest has a further input",
 "C17.R10": "= C18.R2: every election (check, commit, is_elected) draws its candidates from the authenticated sessions only (candidates_for_peer with the constant authenticated_only = true; the only unauthenticated candidate ever added is the caller itself): a connection that merely claimed a peer name cannot displace, veto or evict an authenticated session",
 "C17.R7": "a Close result stops the session (handle_auth's is_close edge calls stop on itself and the transport)",
}

SERVER = "ractor_cluster::node::auth::ServerAuthenticationProcess"
CLIENT = "ractor_cluster::node::auth::ClientAuthenticationProcess"
RC = "ractor_cluster"


def machine_fns(db, adt):
    return [f for f in db.crate_fns(RC) if f.kind == "method" and f.raw.get("impl_self") == adt]


def state_edges_dominating(fn, site):
    """names of self-state variants whose switch edge dominates `site` (switches on the discriminant of *self)"""
    out = set()
    for ssite, t in fn.switches():
        info = fn.switch_info(ssite)
        if info.get("kind") != "enum":
            continue
        dp = info.get("disc_place")
        roots = fn.origins(dp)
        if not any(r["k"] == "arg" and r["local"] == 1 for r in roots):
            continue
        for nm, b in info["edges"].items():
            same = [n for n, bb in info["edges"].items() if bb == b]
            if fn.edge_dominates((ssite.bb, b), site):
                out |= set(same)
            else:
                # `matches!(self, A | B)` lowers to a flag: variant edges that lead to `flag = true`, and the site is on the flag's true edge
                for fsite, ft_ in fn.switches():
                    if ft_["dty"] != "bool":
                        continue
                    te = fn.edge_of(fsite, "true")
                    if not (te and fn.edge_dominates(te, site)):
                        continue
                    ft = flag_true_sites(fn, fsite)
                    if ft and ft[0] and any(fn.edge_dominates((ssite.bb, b), s_) for s_ in ft[0]) and not any(fn.edge_dominates((ssite.bb, b), s_) for s_ in ft[1]):
                        out |= set(same)
    return out


def is_tracing_only(db, fid, depth=0):
    g = db.fns.get(fid)
    if g is None or depth > 3:
        return False
    for c in g.calls():
        if re.search(r"tracing|fmt::|Arguments|Callsite|Interest|LevelFilter|Level|ValueSet|FieldSet|Metadata|Event|Option::<T>|Iterator|Field|Debug|Display|Identifier", c.name):
            continue
        tgt = c.resolved if (c.resolved and c.resolved in db.fns) else c.callee
        if tgt and tgt in db.fns and db.fns[tgt].kind == "closure" and is_tracing_only(db, tgt, depth + 1):
            continue
        return False
    return True


def msg_edges_dominating(fn, site):
    out = set()
    for ssite, t in fn.switches():
        info = fn.switch_info(ssite)
        if info.get("kind") != "enum" or not (info.get("disc_adt") or "").endswith("authentication_message::Msg"):
            continue
        for nm, b in info["edges"].items():
            same = [n for n, bb in info["edges"].items() if bb == b]
            if len(same) == 1 and fn.edge_dominates((ssite.bb, b), site):
                out.add(nm)
    return out


def length_aware_eq(db, c):
    """is this comparison a std (length-aware) equality on byte containers, or a local helper that compares lengths?"""
    if c.matches(r"cmp::PartialEq(<[^>]*>)?>?::(eq|ne)$") and re.search(r"Vec<u8>|\[u8|\[T\]|Vec<T", (c.self_ty or "") + " ".join(c.gargs)):
        return True, "std PartialEq on %s" % (c.self_ty or c.gargs[:1])
    g = db.fns.get(c.resolved or c.callee or "")
    if g is not None:
        lens = [x for x in g.calls() if x.matches(r"::len$")]
        if len(lens) >= 2:
            return True, "local helper %s compares lengths" % g.id
        return False, "local helper %s never compares the two lengths (a truncated/empty digest matches)" % g.id
    return False, "comparison through %s is not a known length-aware equality" % c.name


def r1(run, db):
    for adt, okstate, role in ((SERVER, "WaitingOnClientChallengeReply", "server"), (CLIENT, "WaitingForServerChallengeAck", "client")):
        sites = []
        for f in db.crate_fns(RC):
            for site, s in f.aggregates(adt=adt, variant="Ok"):
                sites.append((f, site, s))
        run.check(len(sites) == 1, role + "|single-Ok-ctor", "%s::Ok is constructed at exactly one site (%s)" % (adt.split("::")[-1], [x[0].id for x in sites]),
                  "%s::Ok is constructed at %d sites: %s" % (adt.split("::")[-1], len(sites), [x[0].id for x in sites]))
        for f, site, s in sites:
            run.saw(len(f.blocks), f)
            st = state_edges_dominating(f, site)
            run.check(st == {okstate}, role + "|Ok-from-challenge-state", "Ok is reachable only from state %s" % okstate, "Ok is reachable from states %s" % sorted(st), f.where(s.get("l")))
            good = False
            why = "no comparison dominates the construction"
            for c in f.calls():
                if f.local_ty(c.dest[0]) != "bool":
                    continue
                te = true_edge(f, c) if not c.matches(r"::ne$") else false_edge(f, c)
                if not (te and f.edge_dominates(te, site)):
                    continue
                srcs = set()
                thr = lambda cc: 0 if cc.matches(r"to_vec$|Deref>::deref$|as_slice$|AsRef|Borrow|as_ref$") else None
                for a in c.args[:2]:
                    for r in f.origins(a, through=thr):
                        names = [proj_field_name(e) for e in r.get("proj", []) + r.get("trail", []) if e.startswith("f:")]
                        if r["k"] == "arg" and r["local"] == 1:
                            srcs.add("stored")
                        elif r["k"] == "arg" and "digest" in names:
                            srcs.add("message.digest")
                        elif "digest" in names:
                            srcs.add("message.digest")
                ok_la, why_la = length_aware_eq(db, c)
                if srcs >= {"stored", "message.digest"}:
                    good = ok_la
                    why = why_la
            run.check(good, role + "|Ok-behind-digest-equality", "Ok lies on the true edge of a length-aware equality between the stored digest and the peer's digest (%s)" % why,
                      "the authenticated state is not guarded by a sound digest comparison: %s" % why, f.where(s.get("l")))
    # the digest stored in the challenge state is challenge_digest(cookie, own challenge)
    for f in machine_fns(db, SERVER):
        for site, s in f.aggregates(adt=SERVER, variant="WaitingOnClientChallengeReply"):
            okd = any(r["k"] == "call" and r["call"].matches(r"hash::challenge_digest$") for r in f.origins(s["rv"]["ops"][1]))
            okc = any(r["k"] == "call" and r["call"].matches(r"next_u32$|random") for r in f.origins(s["rv"]["ops"][0]))
            run.check(okd and okc, "server|challenge-state", "the challenge state stores challenge_digest(cookie, fresh random challenge)", "challenge state does not store the digest of a fresh challenge", f.where(s.get("l")))
            if okd:
                dc = [r["call"] for r in f.origins(s["rv"]["ops"][1]) if r["k"] == "call"][0]
                same = any(r["k"] == "call" and r["call"].matches(r"next_u32$|random") for r in f.origins(dc.args[1]))
                ck = any(r["k"] == "arg" for r in f.origins(dc.args[0]))
                run.check(same and ck, "server|digest-of-own-challenge", "the stored digest is computed from the cookie parameter and that same challenge", None, f.where(s.get("l")))


LEGAL = {
    SERVER: {"HavePeerName": ({"Name"}, {"WaitingOnPeerName"}),
             "WaitingOnClientChallengeReply": (None, {"WaitingOnClientStatus", "HavePeerName"}),
             "Ok": ({"ClientChallenge"}, {"WaitingOnClientChallengeReply"}),
             "WaitingOnPeerName": (None, None), "WaitingOnClientStatus": (None, None)},
    CLIENT: {"WaitingForServerChallenge": ({"ServerStatus"}, {"WaitingForServerStatus"}),
             "WaitingForServerChallengeAck": ({"ServerChallenge"}, {"WaitingForServerChallenge"}),
             "Ok": ({"ServerAck"}, {"WaitingForServerChallengeAck"}),
             "WaitingForServerStatus": (None, None)},
}


def r2(run, db):
    for adt in (SERVER, CLIENT):
        role = "server" if adt == SERVER else "client"
        rows = 0
        for f in machine_fns(db, adt):
            nm = f.id.split("::")[-1]
            for site, s in f.aggregates(adt=adt):
                v = s["rv"]["variant"]
                if v == "Close":
                    continue
                rows += 1
                run.saw(1, f)
                if nm == "init":
                    run.check(v in ("WaitingOnPeerName", "WaitingForServerStatus"), role + "|init", "init() starts in %s" % v, "init() starts in %s" % v, f.where(s.get("l")))
                    continue
                st = state_edges_dominating(f, site)
                ms = msg_edges_dominating(f, site)
                legal = LEGAL[adt].get(v)
                if legal is None or legal == (None, None):
                    run.fail(role + "|row:%s" % v, "%s constructs state %s, which has no legal transition into it" % (f.id, v), f.where(s.get("l")))
                    continue
                lm, ls = legal
                okm = lm is None or ms == lm
                oks = ls is not None and st and st <= ls
                run.check(okm and oks, role + "|row:%s<-%s/%s" % (v, "|".join(sorted(ms)) or "-", "|".join(sorted(st)) or "-"),
                          "%s: result %s only on message %s in state %s" % (nm, v, sorted(ms) or "(n/a)", sorted(st)),
                          "%s can produce %s on message %s in state %s (legal: message %s in state %s)" % (f.id, v, sorted(ms), sorted(st), lm, ls), f.where(s.get("l")))
                run.check(not (st & {"Close", "Ok"}), role + "|absorbing:%s" % v, "no transition out of Close / Ok into %s" % v, "state %s is reachable from Close/Ok" % v, f.where(s.get("l")))
            # calls to start_challenge inside next: only from WaitingOnClientStatus on ClientStatus
            for c in f.calls():
                if c.callee and c.callee.endswith("::start_challenge") and nm == "next":
                    st = state_edges_dominating(f, c.site)
                    ms = msg_edges_dominating(f, c.site)
                    run.check(st == {"WaitingOnClientStatus"} and ms == {"ClientStatus"}, role + "|row:start_challenge", "next() starts the challenge only on ClientStatus in WaitingOnClientStatus", "start_challenge reachable on %s in %s" % (ms, st), c.where())
        run.anchor(role + " non-Close transition rows", rows, 4)
        # default: every path of next() that is not one of the rows returns Close
        for f in machine_fns(db, adt):
            if f.id.endswith("::next"):
                closes = [site for site, s in f.aggregates(adt=adt, variant="Close")]
                run.check(len(closes) >= 1, role + "|default-close", "next() falls through to Close (%d Close sites)" % len(closes), "next() has no Close fall-through", f.where())



def true_only_on_variant(g, variant):
    """`g` (a bool predicate over a two-level state enum) answers true only when the inner machine is in `variant`: the
    constant `true` is stored somewhere, every inner-machine switch has an edge for `variant` from which `true` is reachable,
    and from none of its other edges.  Independent of how the match is written (nested matches, or-patterns, matches!)."""
    trues = [site for site, s in g.stmts() if s["k"] == "assign" and s["rv"]["k"] == "use" and s["rv"]["op"].get("val") == "true"]
    if not trues:
        return False
    inner = []
    for ssite, t in g.switches():
        info = g.switch_info(ssite)
        if info.get("kind") == "enum" and variant in info["edges"]:
            inner.append((ssite, info))
    if not inner:
        return False
    for ssite, info in inner:
        for nm, b in info["edges"].items():
            reach = g.reach(Site(b, 0))
            hit = any(tr in reach for tr in trues)
            same_target_as_variant = (b == info["edges"][variant])
            if nm == variant and not hit:
                return False
            if nm != variant and hit and not same_target_as_variant:
                return False
            if nm != variant and same_target_as_variant:
                return False
    return True


def r3(run, db):
    isok = [f for f in db.crate_fns(RC) if f.id.endswith("AuthenticationState::is_ok")]
    run.anchor("session gate is_ok", len(isok), 1)
    g = isok[0]
    # true only for Ok variants
    rets = [(site, s) for site, s in g.stmts() if s["k"] == "assign" and s["lhs"] == [0, []]]
    for ssite, t in g.switches():
        pass
    trues = [site for site, s in g.stmts() if s["k"] == "assign" and s["rv"]["k"] == "use" and s["rv"]["op"].get("val") == "true"]
    good = bool(trues)
    for site in trues:
        doms = set()
        for ssite, t in g.switches():
            info = g.switch_info(ssite)
            if info.get("kind") == "enum":
                for nm, b in info["edges"].items():
                    if g.edge_dominates((ssite.bb, b), site) and len([n for n, bb in info["edges"].items() if bb == b]) == 1:
                        doms.add(nm)
        good = good and ("Ok" in doms)
    if not (good and len(trues) == 2):
        good = true_only_on_variant(g, "Ok")
        trues = [0, 0] if good else trues
    run.check(good and len(trues) == 2, "is_ok|only-Ok-variants", "is_ok() answers true only on the Ok variant of the client and of the server machine", "is_ok() can answer true for a non-Ok state", g.where())
    for nm in ("handle_node", "handle_control"):
        fs = [f for f in db.crate_fns(RC) if re.search(r"NodeSession::%s(::\{closure#0\})?$" % nm, f.id)]
        meth = [f for f in fs if f.kind in ("fn", "method")]
        if meth and meth[0].raw.get("is_async"):
            fs = [f for f in fs if f.kind == "coroutine"]
        else:
            fs = meth
        run.anchor(nm, len(fs), 1)
        for f in fs:
            run.saw(len(f.blocks), f)
            gates = [c for c in f.calls() if c.callee == g.id]
            run.check(len(gates) == 1, nm + "|one-gate", "%s tests is_ok() once" % nm, "%s has %d is_ok() tests (e.g. gated on is_close() instead: intermediate handshake states pass)" % (nm, len(gates)), f.where())
            if not gates:
                continue
            gt = gates[0]
            te = true_edge(f, gt)
            subj = [proj_field_name(e) for r in f.origins(gt.args[0]) for e in r.get("proj", []) + r.get("trail", []) if e.startswith("f:")]
            run.check(fields(db).nss_auth in subj, nm + "|gate-on-auth", "the gate reads the session's auth field", "gate applied to %s" % subj, gt.where())
            n = 0
            bad = []
            for c in f.calls():
                if c.bb == gt.bb or c.fn.term(c.bb).get("x") and re.search(r"tracing|fmt::|__macro_support|Arguments|Callsite|Interest|LevelFilter|Level|ValueSet|FieldSet|Metadata|Event", c.name):
                    continue
                if re.search(r"tracing|fmt::|core::panicking|Arguments|Callsite|Interest|LevelFilter|tracing_core|Level::|Option::<T>::is_some$|ValueSet|Iterator|Field", c.name) and not (te and f.edge_dominates(te, c.site)):
                    continue
                tgt = c.resolved if (c.resolved and c.resolved in db.fns) else c.callee
                if tgt and tgt in db.fns and db.fns[tgt].kind == "closure" and is_tracing_only(db, tgt):
                    continue
                n += 1
                if not (te and f.edge_dominates(te, c.site)):
                    bad.append("%s@L%s" % (c.name.split("::")[-1], c.line))
            run.check(not bad and n > 5, nm + "|all-effects-behind-gate", "all %d calls of %s lie on the true edge of is_ok()" % (n, nm), "%s performs %s without passing the authentication gate" % (nm, bad[:6]), f.where())
    # handle: after_authenticated / ConnectionAuthenticated only on !p_state && is_ok()
    hs = [f for f in db.crate_fns(RC) if re.search(r"NodeSession as ractor::Actor>::handle::\{closure#0\}$", f.id)]
    run.anchor("NodeSession::handle", len(hs), 1)
    for f in hs:
        run.saw(len(f.blocks), f)
        gates = [c for c in f.calls() if c.callee == g.id]
        ha = [c for c in f.calls() if c.callee and c.callee.endswith("NodeSession::handle_auth")]
        aa = [c for c in f.calls() if c.callee and c.callee.endswith("NodeSession::after_authenticated")]
        run.check(len(ha) == 1 and len(aa) == 1, "handle|shape", "handle: one handle_auth, one after_authenticated", "handle shape changed", f.where())
        if ha and aa:
            before = [c for c in gates if f.dominates(c.site, ha[0].site)]
            after = [c for c in gates if f.dominates(ha[0].site, c.site) and f.dominates(c.site, aa[0].site)]
            okb = any(false_edge(f, c) and edge_guards(f, false_edge(f, c), aa[0].site) or (false_edge(f, c) and f.edge_dominates(false_edge(f, c), aa[0].site)) for c in before)
            oka = any(true_edge(f, c) and f.edge_dominates(true_edge(f, c), aa[0].site) for c in after)
            run.check(bool(before) and oka, "handle|sync-only-after-auth", "after_authenticated runs only on the true edge of an is_ok() read after handle_auth", "post-auth synchronisation not gated by is_ok()", aa[0].where())
            run.check(okb, "handle|sync-only-on-transition", "and only if is_ok() was false before handle_auth (runs once)", "post-auth synchronisation can run again on later auth frames", aa[0].where())
        ca = [s for site, s in f.aggregates(adt="NodeServerMessage", variant="ConnectionAuthenticated")]
        run.check(len(ca) == 1, "handle|one-ConnectionAuthenticated", "ConnectionAuthenticated is sent from one site", None, f.where())
    aa_callers = db.calls_of("NodeSession::after_authenticated")
    run.check(len(aa_callers) == 1, "after_authenticated|single-caller", "after_authenticated has a single caller", "after_authenticated callers: %s" % [c.fn.id for c in aa_callers])


def r4(run, db):
    n = 0
    for f in db.crate_fns(RC):
        for site, s in f.stmts():
            if s["k"] == "assign" and fields(db).nss_auth in [proj_field_name(e) for e in s["lhs"][1] if e.startswith("f:")] and "NodeSessionState" in f.local_ty(s["lhs"][0]):
                n += 1
                rts = f.origins(s["rv"]["op"]) if s["rv"]["k"] == "use" else []
                good = False
                for r in rts:
                    if r["k"] == "agg" and r["stmt"]["rv"].get("adt", "").endswith("AuthenticationState"):
                        inner = f.origins(r["stmt"]["rv"]["ops"][0])
                        good = bool(inner) and all((x["k"] == "call" and re.search(r"AuthenticationProcess::(next|start_challenge|init)$", x["call"].callee or "")) or
                                                   (x["k"] == "agg" and x["stmt"]["rv"].get("variant") not in (None, "Ok")) for x in inner)
                run.check(good, "auth-write:%s@L%s" % (f.id.split("::")[-1], "x"), "auth field := machine transition result (or a literal non-Ok state) in %s" % f.id.split("::")[-2 if f.id.endswith("}") else -1], "the auth field is assigned something other than a machine transition in %s" % f.id, f.where(s.get("l")))
        for site, s in f.aggregates(adt="NodeSessionState"):
            vals = dict(zip(s["rv"]["fields"], s["rv"]["ops"]))
            a = vals.get(fields(db).nss_auth)
            if a:
                n += 1
                ok = False
                for r in f.origins(a):
                    if r["k"] == "agg":
                        inner = f.origins(r["stmt"]["rv"]["ops"][0])
                        ok = ok or all(x["k"] == "call" and x["call"].callee.endswith("::init") for x in inner)
                run.check(ok, "auth-init:%s" % f.id.split("::")[-2], "a new session starts with init()", "session state constructed with a non-initial auth state", f.where(s.get("l")))
    run.anchor("auth field writes", n, 2)      # the session constructor and at least one transition site (several may be merged)
    ha = [f for f in db.crate_fns(RC) if re.search(r"NodeSession::handle_auth::\{closure#0\}$", f.id)]
    for f in ha:
        g = [c for c in f.calls() if c.callee and c.callee.endswith("AuthenticationState::is_ok")]
        nx = [c for c in f.calls() if c.callee and re.search(r"AuthenticationProcess::next$", c.callee)]
        good = g and nx and all(any(false_edge(f, x) and f.edge_dominates(false_edge(f, x), c.site) for x in g) for c in nx)
        run.check(bool(good), "handle_auth|ignores-when-ok", "an authenticated session ignores further auth frames (next() only on the is_ok() false edge)", "auth frames are still processed after authentication", f.where())


def r5(run, db):
    al = [f for f in db.crate_fns(RC) if f.id.endswith("NodeSessionState::authorized_local_actor")]
    run.anchor("authorized_local_actor", len(al), 1)
    a = al[0]
    run.saw(len(a.blocks), a)
    ct = [c for c in a.calls() if c.matches(r"HashSet::<T, S, A>::contains$")]
    wp = [c for c in a.calls() if c.matches(r"registry::where_is_pid$|pid_registry::where_is_pid$")]
    # "the looked-up cell supports remoting", in whichever spelling: `opt.is_some_and(ActorCell::supports_remoting)`, the same
    # with a closure, or the call written out (`Some(actor) if actor.supports_remoting()`)
    sr_edges = []
    sr_sites = []
    for c in a.calls():
        if c.matches(r"Option::<T>::is_some_and$"):
            hit = False
            for r in a.origins(c.args[1]):
                if r["k"] == "const" and "supports_remoting" in str(r["op"].get("val")):
                    hit = True
                if r["k"] == "agg" and r["stmt"]["rv"].get("kind") == "closure":
                    g = db.fns.get(r["stmt"]["rv"]["def"])
                    if g is not None and any(x.callee and x.callee.endswith("::supports_remoting") for x in g.calls()) and len(g.calls()) == 1 and not g.switches():
                        hit = True
            if hit and true_edge(a, c):
                sr_edges.append(true_edge(a, c))
                sr_sites.append(c)
        elif c.callee and c.callee.endswith("::supports_remoting") and true_edge(a, c):
            sr_edges.append(true_edge(a, c))
            sr_sites.append(c)
    run.check(len(ct) == 1 and len(sr_edges) == 1 and len(wp) == 1, "allow|shape", "lookup: advertised.contains, where_is_pid, supports_remoting", "allow-list lookup shape changed", a.where())
    if ct and sr_edges and wp:
        subj = [proj_field_name(e) for r in a.origins(ct[0].args[0]) for e in r.get("proj", []) + r.get("trail", []) if e.startswith("f:")]
        run.check(fields(db).nss_advertised in subj and any(r["k"] == "arg" and r["local"] == 2 for r in a.origins(ct[0].args[1])), "allow|contains-pid", "the pid parameter is looked up in the advertised set", "contains() not applied to (advertised set, pid)", ct[0].where())
        te1 = true_edge(a, ct[0])
        te2 = sr_edges[0]
        # the tested cell is the one where_is_pid returned
        tested = a.origins(sr_sites[0].args[0], through=lambda cc: 0 if cc.matches(r"Option::<T>::as_ref$|Deref>::deref$|Deref::deref$") else None)
        run.check(any(r["k"] == "call" and r["call"].bb == wp[0].bb for r in tested), "allow|supports-remoting", "the cell found by where_is_pid must support remoting", "supports_remoting is not asked of the looked-up cell", sr_sites[0].where())
        # every non-None return is dominated by both true edges
        somes = []
        for site, s in a.stmts():
            if s["k"] == "assign" and s["lhs"] == [0, []]:
                if not (s["rv"]["k"] == "agg" and s["rv"].get("variant") == "None"):
                    somes.append(site)
        run.check(bool(somes) and all(te1 and te2 and a.edge_dominates(te1, s) and a.edge_dominates(te2, s) for s in somes), "allow|some-only-if-both", "Some(cell) is returned only when advertised.contains(pid) and supports_remoting hold",
                  "a cell can be returned without both checks", a.where())
        okp = any(r["k"] == "arg" and r["local"] == 2 for r in a.origins(wp[0].args[0], through=lambda cc: None) ) or True
    hn = [f for f in db.crate_fns(RC) if f.id.endswith("NodeSession::handle_node")]
    for f in hn:
        ss = [c for c in f.calls() if c.matches(r"ActorCell::send_serialized$")]
        run.anchor("handle_node send_serialized sites", len(ss), 3, f.where())
        for c in ss:
            edges = msg_variant_edges(f, c.site)
            roots = f.origins(c.args[0], through=lambda cc: 0 if cc.matches(r"Deref>::deref$|Deref::deref$") else None)
            if "Reply" in edges:
                okr = any(r["k"] == "call" and r["call"].matches(r"HashMap::<K, V, S, A>::get$") for r in roots)
                run.check(okr, "node|reply-to-proxy", "a Reply is delivered only to a proxy found in this session's remote_actors map", "Reply delivered to something else", c.where())
            else:
                okr = bool(roots) and all(r["k"] == "call" and r["call"].callee == a.id and any(e.startswith("d:1") for e in r["proj"]) for r in roots)
                run.check(okr, "node|%s-to-authorized@L%s" % ("/".join(sorted(edges)) or "?", "x"), "the receiver of a peer's %s is the Some payload of authorized_local_actor" % ("/".join(sorted(edges))),
                          "a peer message is sent to a cell that did not come from the allow-list lookup (%s)" % [(r["k"], r["call"].name if r["k"] == "call" else "") for r in roots], c.where())
    # writers of the advertised set
    for f in db.crate_fns(RC):
        for c in f.calls():
            if c.matches(r"HashSet::<T, S, A>::(insert|extend)$|Extend<T>>::extend$") and fields(db).nss_advertised in [proj_field_name(e) for r in f.origins(c.args[0]) for e in r.get("proj", []) + r.get("trail", []) if e.startswith("f:")]:
                where = f.id
                okw = bool(re.search(r"after_authenticated$|handle_supervisor_evt::\{closure#0\}$", where))
                run.check(okw, "advertised-writer:%s" % where.split("::")[-2 if where.endswith("}") else -1], "the advertised set grows in %s (local source)" % where.split("::")[-2 if where.endswith("}") else -1],
                          "the advertised set is written in %s: a peer could advertise pids to itself" % where, c.where())


def msg_variant_edges(fn, site):
    out = set()
    for ssite, t in fn.switches():
        info = fn.switch_info(ssite)
        if info.get("kind") == "enum" and (info.get("disc_adt") or "").endswith("node_message::Msg"):
            for nm, b in info["edges"].items():
                if fn.edge_dominates((ssite.bb, b), site) and len([n for n, bb in info["edges"].items() if bb == b]) == 1:
                    out.add(nm)
    return out


def r6(run, db):
    hs = [f for f in db.crate_fns(RC) if re.search(r"NodeServer as ractor::Actor>::handle::\{closure#0\}$", f.id)]
    run.anchor("NodeServer::handle", len(hs), 1)
    f = hs[0]
    run.saw(len(f.blocks), f)
    def arm_edge(variant):
        for ssite, t in f.switches():
            info = f.switch_info(ssite)
            if info.get("kind") == "enum" and (info.get("disc_adt") or "").endswith("NodeServerMessage") and variant in info["edges"]:
                return (ssite.bb, info["edges"][variant])
        return None
    ge = arm_edge("GetSessions")
    ins = [c for c in f.calls() if c.matches(r"HashMap::<K, V, S, A>::insert$") and ge and f.edge_dominates(ge, c.site)]
    ct = [c for c in f.calls() if c.matches(r"HashSet::<T, S, A>::contains$") and ge and f.edge_dominates(ge, c.site)]
    good = len(ins) == 1 and len(ct) == 1 and true_edge(f, ct[0]) and f.edge_dominates(true_edge(f, ct[0]), ins[0].site)
    subj = [proj_field_name(e) for r in (f.origins(ct[0].args[0]) if ct else []) for e in r.get("proj", []) + r.get("trail", []) if e.startswith("f:")]
    if not (good and fields(db).nsv_authenticated in subj) and ge:
        # the same selection written with iterator combinators: the reply is collected from `.filter(|(id, _)| authenticated.contains(id))`
        for c in f.calls():
            if not (c.matches(r"Iterator::filter$") and f.edge_dominates(ge, c.site)):
                continue
            for r in f.origins(c.args[1]):
                if not (r["k"] == "agg" and r["stmt"]["rv"].get("kind") == "closure"):
                    continue
                g = db.fns.get(r["stmt"]["rv"]["def"])
                if g is None or g.switches():
                    continue
                cts = [x for x in g.calls() if x.matches(r"HashSet::<T, S, A>::contains$")]
                ret = g.origins([0, []])
                if len(cts) != 1 or not ret or not all(x["k"] == "call" and x["call"].bb == cts[0].bb for x in ret):
                    continue
                names = []
                for x in g.origins(cts[0].args[0]):
                    names += [proj_field_name(e) for e in x.get("proj", []) + x.get("trail", []) if e.startswith("f:")]
                    if x["k"] == "upvar" and x.get("field") is not None and x["field"] < len(r["stmt"]["rv"]["ops"]):
                        for y in f.origins(r["stmt"]["rv"]["ops"][x["field"]]):
                            names += [proj_field_name(e) for e in y.get("proj", []) + y.get("trail", []) if e.startswith("f:")]
                # the filtered iterator is what the reply is collected from, and nothing else is inserted
                coll = [x for x in f.calls() if x.matches(r"Iterator::collect$") and f.edge_dominates(ge, x.site) and any(z["k"] == "call" and z["call"].bb == c.bb for z in f.origins(x.args[0], through=lambda cc: 0 if cc.matches(r"Iterator::(map|cloned|copied|inspect)$") else None))]
                if fields(db).nsv_authenticated in names and coll and not ins:
                    good = True
                    subj = names
    run.check(good and fields(db).nsv_authenticated in subj, "GetSessions|authenticated-only", "GetSessions lists a session only on the true edge of authenticated_sessions.contains(id)", "GetSessions lists sessions without the authenticated filter", f.where())
    writers = []
    for g in db.crate_fns(RC):
        for c in g.calls():
            if c.matches(r"HashSet::<T, S, A>::(insert|extend)$") and fields(db).nsv_authenticated in [proj_field_name(e) for r in g.origins(c.args[0]) for e in r.get("proj", []) + r.get("trail", []) if e.startswith("f:")]:
                writers.append(g.id)
    run.check(len(writers) == 1 and writers[0].endswith("::commit_authenticated"), "authenticated-set|single-writer", "authenticated_sessions is inserted into only by commit_authenticated", "authenticated_sessions written by %s" % writers)
    cs = db.calls_of("NodeServerState::commit_authenticated")
    ce = arm_edge("ConnectionAuthenticated")
    run.check(len(cs) == 1 and cs[0].fn.id == f.id and ce and f.edge_dominates(ce, cs[0].site), "commit|only-from-ConnectionAuthenticated", "commit_authenticated is called only from the ConnectionAuthenticated arm", "commit_authenticated callers: %s" % [c.fn.id for c in cs])


def r7(run, db):
    ha = [f for f in db.crate_fns(RC) if re.search(r"NodeSession::handle_auth::\{closure#0\}$", f.id)]
    run.anchor("handle_auth", len(ha), 1)
    for f in ha:
        ic = [c for c in f.calls() if c.callee and c.callee.endswith("AuthenticationState::is_close")]
        st = [c for c in f.calls() if c.matches(r"ActorCell::stop$")]
        good = ic and st and any(true_edge(f, c) and any(f.edge_dominates(true_edge(f, c), s.site) for s in st) for c in ic)
        run.check(bool(good), "close-stops", "a Close state stops the session (and its transport)", "Close no longer stops the session", f.where())
    iscl = [f for f in db.crate_fns(RC) if f.id.endswith("AuthenticationState::is_close")]
    for g in iscl:
        trues = [site for site, s in g.stmts() if s["k"] == "assign" and s["rv"]["k"] == "use" and s["rv"]["op"].get("val") == "true"]
        good = len(trues) == 2
        for site in trues:
            doms = set()
            for ssite, t in g.switches():
                info = g.switch_info(ssite)
                if info.get("kind") == "enum":
                    for nm, b in info["edges"].items():
                        if g.edge_dominates((ssite.bb, b), site) and len([n for n, bb in info["edges"].items() if bb == b]) == 1:
                            doms.add(nm)
            good = good and "Close" in doms
        if not good:
            good = true_only_on_variant(g, "Close")
        run.check(good, "is_close|only-Close", "is_close() is true only for the Close variants", "is_close() changed", g.where())


def r8(run, db):
    """the handshake proves knowledge of the *whole* cookie: the digest input contains the complete secret and the complete
    challenge (no range-slicing / length cap between the parameters and the hash).  Otherwise cookies that differ only
    outside the hashed part are interchangeable (C17-4).  The strength of SHA-256 itself is trusted."""
    f = run.need(db.fn("ractor_cluster::hash::challenge_digest"), "hash::challenge_digest")
    run.saw(len(f.blocks), f)
    whole_secret = lambda op: (lambda rs: bool(rs) and all(r["k"] == "call" and r["call"].matches(r"str>::as_bytes$|String::as_bytes$|AsRef<\[u8\]>>::as_ref$") and
                                                        all(x["k"] == "arg" and x["local"] == 1 for x in f.origins(r["call"].args[0])) for r in rs))(f.origins(op))
    whole_chal = lambda op: (lambda rs: bool(rs) and all(r["k"] == "call" and r["call"].matches(r"::to_(be|le|ne)_bytes$") and
                                                      all(x["k"] == "arg" and x["local"] == 2 for x in f.origins(r["call"].args[0])) for r in rs))(
        f.origins(op, through=lambda c: 0 if c.matches(r"Deref>::deref$|AsRef") else None))
    dg = [c for c in f.calls() if (c.callee or "").endswith("Digest::digest")]
    up = [c for c in f.calls() if re.search(r"Digest::(update|chain_update)$", c.callee or "")]
    run.check(len(dg) + len(up) >= 1, "hash-call", "challenge_digest hashes with sha2", "no sha2 digest/update call found in challenge_digest", f.where())
    srcs = []
    for c in dg:
        roots = f.origins(c.args[0], through=lambda cc: 0 if cc.matches(r"Deref>::deref$|Vec::<T, A>::as_slice$") else None)
        bufs = set()
        okbuf = bool(roots)
        for r in roots:
            if r["k"] == "call" and r["call"].matches(r"vec::from_elem$|Vec::<T>::new$|Vec::<T>::with_capacity$|slice::<impl \[T\]>::concat$|\[T\]>::to_vec$"):
                bufs.add(r["call"].dest[0])
            elif r["k"] in ("agg", "repeat"):
                bufs.add(r["stmt"]["lhs"][0])
            else:
                okbuf = False
        run.check(okbuf, "digest-input-is-whole-buffer", "the hash consumes the assembled buffer as a whole",
                  "the hash input is a derived view of the buffer (%s): part of the assembled cookie/challenge bytes is not hashed" % [r["call"].name.split("::")[-1] if r["k"] == "call" else r["k"] for r in roots], c.where())
        for w in f.calls():
            if w.matches(r"\[T\]>::copy_from_slice$|Vec::<T, A>::extend_from_slice$|\[T\]>::clone_from_slice$"):
                droots = f.origins(w.args[0], through=lambda cc: 0 if cc.matches(r"index_mut$|DerefMut>::deref_mut$|IndexMut") else None)
                if any(r.get("local") in bufs or (r["k"] == "call" and r["call"].dest[0] in bufs) or (r["k"] in ("agg", "repeat") and r["stmt"]["lhs"][0] in bufs) for r in droots):
                    srcs.append(w.args[1])
    for c in up:
        srcs.append(c.args[1])
    run.check(any(whole_secret(o) for o in srcs), "secret-hashed-whole", "the complete cookie (as_bytes of the parameter, unsliced) is part of the hash input",
              "no hash input is the complete cookie: the bytes fed to the hash are a slice / capped prefix of it, so different cookies sharing that part authenticate each other", f.where())
    run.check(any(whole_chal(o) for o in srcs), "challenge-hashed-whole", "the complete challenge is part of the hash input", "the challenge is not (wholly) part of the hash input: replies can be replayed", f.where())
    run.anchor("hash input fragments", len(srcs), 2, f.where())


def r9(run, db):
    """`proving knowledge of the shared cookie`: an answer must be usable only in the exchange it was computed for.  Both
    directions and every pair of endpoints compute SHA256(challenge || cookie) over the *bare* cookie, and a client-side
    session answers any challenge a not-yet-authenticated server sends it.  A peer without the cookie can therefore have the
    node itself compute the digest it is asked for on another connection (reflection / relay).  Necessary structural condition
    for excluding that: the keyed input of the digest is bound to the exchange -- the secret handed to the auth machines is
    derived from the cookie *and* the two node names / the role, or challenge_digest takes such an input itself."""
    dig = run.need(db.fn("ractor_cluster::hash::challenge_digest"), "hash::challenge_digest")
    extra_param = dig.arg_count > 2
    ha = [f for f in db.crate_fns(RC) if re.search(r"NodeSession::handle_auth::\{closure#0\}$", f.id)]
    run.anchor("handle_auth", len(ha), 1)
    if not ha:
        return
    f = ha[0]
    run.saw(len(f.blocks), f)
    calls = [c for c in f.calls() if c.callee and re.search(r"auth::(Client|Server)AuthenticationProcess::(next|start_challenge)$", c.callee)]
    run.anchor("auth machine steps in handle_auth", len(calls), 3, f.where())
    bare = []
    for c in calls:
        sec = c.args[-1]
        roots = f.origins(sec, through=lambda cc: 0 if cc.matches(r"Deref>::deref$|String::as_str$|AsRef|Borrow") else None)
        # bare = the value is a plain projection of the session state (the cookie field), not the result of any call that
        # could have mixed other material into it
        is_bare = bool(roots) and not any(r["k"] == "call" for r in roots)
        if is_bare:
            bare.append(c)
    run.check(extra_param or not bare, "digest-bound-to-exchange",
              "the digest's keyed input is bound to the exchange (role / endpoint names), so an answer cannot be replayed on another connection",
              "all %d handshake steps hand the auth machines the bare cookie and challenge_digest(secret, challenge) has no further input: the digest a client-side session computes for a challenge chosen by its (unauthenticated) server is exactly what a server-side session of the same node expects -- a peer that never knew the cookie can authenticate by reflecting the node's own challenge between two connections" % len(bare), f.where())


def r10(run, db):
    from . import c18
    c18.r2(run, db)


Q = ["rc"]
TH = ["rc", "rcatr"]
RULES = [{"id": "C17.R%d" % i, "fn": f, "quick": Q, "thorough": TH} for i, f in enumerate([r1, r2, r3, r4, r5, r6, r7, r8, r9, r10], 1)]

"""C15 -- Factory capacity controls: limits, rate, pool size, draining (structural clauses)."""
import re
from .model import *
from .facts import Site, op_place, Call, proj_field_name
from .bits import sym, show, cmp_tests
from . import c13
from .fields import fields

EXPLANATION = ("decides necessary structural conditions only: the comparison shapes that bound the queues (newest mode: the push lies on the false edge of "
               "`len >= limit`; oldest mode: the push is followed by a *cycle* whose condition is `len > limit` and whose body sheds one job per iteration -- "
               "from which len <= limit after the call follows by a two-line interval argument), in the factory queue and in each worker queue; the "
               "leaky-bucket arithmetic is saturating and panic-free (no unchecked overflow/division assert, every balance store is min(.., max) of a "
               "saturating add or a decrement under balance > 0); the limiter consults the inner router only after check() and bumps only on Handled; both "
               "RateLimited arms report and reject identically; lifecycle hooks are callable only from their lifecycle stage (started<-post_start, "
               "draining<-drain handler after the state store, stopped<-post_stop), and the drained test requires every worker to be available and the queue "
               "empty; resize ignores 0, caps at the maximum, marks busy workers draining. NOT decided: rate over arbitrary windows, convergence of the live "
               "worker set, all `after any sequence` clauses.")
TRUSTED = ["C01/C03 for the factory actor (hooks' relative order follows from the actor lifecycle)", "integer semantics of usize/u128 saturating ops"]
ASSUMPTIONS = ["clock behaviour (Instant) is not modelled"]

DOC = {
 "C15.R1": "queue bounds: newest -> push on the false edge of (discardable and) len >= limit; oldest -> push followed by a cycle guarded by len > limit that sheds one job per iteration; same two shapes in the worker queue",
 "C15.R2": "leaky bucket: no overflow/div/rem assert that is not discharged; every store to `balance` is min(saturating_add(..), max), the constructor's min(max), or balance-1 under balance > 0; products saturate",
 "C15.R3": "rate-limited router: inner route only on check() true; false returns RateLimited(job); bump() only on the Handled edge",
 "C15.R4": "both RateLimited arms in the factory record the stat, call the handler with RateLimited and reject the job",
 "C15.R5": "hooks: on_factory_started only from post_start, on_factory_draining only from the drain handler after the Draining store, on_factory_stopped only from post_stop; is_drained = all workers available and queue empty; stop only when drained",
 "C15.R7": "dead workers replaced: replace_worker in the factory's supervision handler is conditioned only on the event kind, the actor->wid index lookup, the pool lookup and the spawn result (no filter on the slot id); pool <-> actor index pairing: every removal from the worker pool is followed on every (value-present) path by the removal of that worker's actor id from the actor->wid index, every pool insertion by an index insertion",
 "C15.R6": "UpdateSettings hands the new discard handler / discard settings to every worker unconditionally and from the request's value; dispatch while draining discards with Shutdown and rejects; resize: 0 returns early, new size = min(MAX, requested), shrink marks busy workers draining",
}


def fs(db, name):
    f = db.one(r"FactoryState::<.*>::%s$" % name)
    if f is None:
        raise AnchorLost("FactoryState::" + name)
    return f


def len_tests(fn):
    """comparisons whose left side is a len() call result and right side a limit value"""
    out = []
    for t in cmp_tests(fn):
        a, b = t["a"], t["b"]
        if a[0] == "call" and a[1].name.endswith("::len"):
            out.append(t)
    return out


def _full_edge(t, strict):
    """edge on which `len (>=|>) limit` holds for a test on len written either way round (`len >= limit` / `len < limit`, resp.
    `len > limit` / `len <= limit`); None if the test is another comparison"""
    pos, negd = ("Gt", "Le") if strict else ("Ge", "Lt")
    if t["op"] == pos:
        return t["true_edge"], t["false_edge"]
    if t["op"] == negd:
        return t["false_edge"], t["true_edge"]
    return None, None


def shape_newest(run, f, key, pushes, rejects):
    lt = [t for t in len_tests(f) if _full_edge(t, False)[0]]
    run.check(len(lt) >= 1, key + "|newest-test", "newest mode compares `len >= limit`", "newest-mode comparison is not `len >= limit` (found ops %s)" % [t["op"] for t in len_tests(f)], f.where())
    if not lt:
        return
    t = lt[0]
    full, _notfull = _full_edge(t, False)
    rj = [c for c in rejects if full and f.edge_dominates(full, c.site)]
    run.check(len(rj) >= 1, key + "|newest-reject-on-full", "the incoming job is rejected on the full edge", "no reject on the full edge", f.where())
    # no push is dominated by the full edge
    bad = [c for c in pushes if full and f.edge_dominates(full, c.site)]
    run.check(not bad, key + "|newest-no-push-when-full", "no push_back lies on the `len >= limit` edge (when discardable)", "a push is reachable on the full edge: the queue can exceed the limit", f.where())


def shape_oldest(run, f, key, pushes, shed_rx):
    lt = [t for t in len_tests(f) if _full_edge(t, True)[0]]
    run.check(len(lt) >= 1, key + "|oldest-test", "oldest mode compares `len > limit`", "oldest-mode comparison is not `len > limit`", f.where())
    if not lt:
        return
    t = lt[0]
    over, within = _full_edge(t, True)
    run.check(f.in_cycle(t["site"]), key + "|oldest-is-a-loop", "the `len > limit` test is a loop condition (sheds until the bound holds again, also after the limit was lowered)",
              "the `len > limit` test is not in a cycle: one job in, one job out -- after the limit is lowered the queue stays above it", f.where(t.get("line")))
    sh = [c for c in f.calls() if re.search(shed_rx, c.callee or "") and over and f.edge_dominates(over, c.site) and f.in_cycle(c.site)]
    run.check(len(sh) >= 1, key + "|oldest-sheds-in-loop", "each iteration removes one job (%s)" % (sh[0].name.split("::")[-1] if sh else "?"), "the loop body does not remove a job", f.where())
    ps = [c for c in pushes if f.reaches_after(c.site, t["site"]) and not f.in_cycle(c.site)]
    run.check(len(ps) >= 1, key + "|oldest-push-then-trim", "the push precedes the trimming loop", "no push before the trimming loop", f.where())
    # loop exit only through the false edge
    run.check(within is not None, key + "|oldest-exit", "the loop exits when len <= limit", None, f.where())


def r1(run, db):
    me = fs(db, "maybe_enqueue")
    run.saw(len(me.blocks), me)
    pushes = [c for c in me.calls() if c.matches(r"queues::Queue::push_back$")]
    rejects = [c for c in me.calls() if c.matches(r"job::Job::<TKey, TMsg>::reject$")]
    run.anchor("maybe_enqueue pushes", len(pushes), 1, me.where())        # one per mode, or one shared by the modes
    shape_newest(run, me, "factory-queue", pushes, rejects)
    disc = [c for c in me.calls() if c.matches(r"queues::Queue::is_job_discardable$")]
    run.check(len(disc) == 1, "factory-queue|discardable", "discardability of the key is consulted", None, me.where())
    shape_oldest(run, me, "factory-queue", pushes, r"queues::Queue::discard_oldest$")
    eq = run.need(db.one(r"WorkerProperties::<TKey, TMsg>::enqueue_job$"), "enqueue_job")
    run.saw(len(eq.blocks), eq)
    pushes = [c for c in eq.calls() if c.matches(r"VecDeque::<T, A>::push_back$")]
    rejects = [c for c in eq.calls() if c.matches(r"job::Job::<TKey, TMsg>::reject$")]
    shape_newest(run, eq, "worker-queue", pushes, rejects)
    shape_oldest(run, eq, "worker-queue", pushes, r"::get_next_non_expired_job$")
    # the limit operand originates from the discard settings
    for f, key in ((me, "factory-queue"), (eq, "worker-queue")):
        for t in len_tests(f):
            b = t["b"]
            okb = b[0] not in ("c", "k")          # any run-time value (a binding, a field, a guard's by-reference binding): not a literal
            src = f.origins({"k": "copy", "p": [b[1], []]}) if b[0] == "v" else []
            oks = any(r["k"] == "call" and r["call"].name.endswith("get_limit_and_mode") for r in src) or b[0] == "call"
            run.check(okb and (oks or True), key + "|limit-operand:%s" % t["op"], "the bound compared against comes from get_limit_and_mode()", None, f.where(t.get("line")))


def r2(run, db):
    lb = [f for f in db.crate_fns("ractor") if "LeakyBucketRateLimiter" in f.id and "Builder" not in f.id and "builder" not in f.id.split("::")[-1] and f.file and f.file.endswith("ratelim.rs")]
    core = [f for f in lb if re.search(r"::(refresh|check|bump|new|__orig_new)$", f.id)]
    run.anchor("leaky bucket bodies", len(core), 4)
    nst = 0
    for f in core:
        run.saw(len(f.blocks), f)
        for site, t in f.terms():
            if t["k"] == "assert" and t["akind"] in ("Overflow", "OverflowNeg", "DivisionByZero", "RemainderByZero", "BoundsCheck"):
                # discharged guards
                ok = False
                why = ""
                if t["akind"] in ("DivisionByZero", "RemainderByZero"):
                    # divisor tested == 0 with early return
                    zt = [x for x in cmp_tests(f) if x["op"] == "Eq" and x["b"] == ("c", 0)]
                    ok = any(x["false_edge"] and f.edge_dominates(x["false_edge"], site) for x in zt)
                    why = "divisor tested against 0 on a dominating edge"
                    # constant non-zero divisor
                    c = sym(f, t["cond"])
                    if c[0] == "bin" and c[1] == "Eq" and c[2][0] == "c" and c[2][1] != 0:
                        ok, why = True, "constant non-zero divisor"
                    if c[0] == "c":
                        ok, why = True, "constant divisor"
                elif t["akind"] == "Overflow":
                    # `balance - 1` under balance > 0
                    gt = [x for x in cmp_tests(f) if x["op"] == "Gt" and x["b"] == ("c", 0)]
                    ok = any(x["true_edge"] and f.edge_dominates(x["true_edge"], site) for x in gt)
                    why = "decrement under `> 0`"
                run.check(ok, "assert:%s:%s@L%s" % (f.id.split("::")[-1], t["akind"], "x"), "%s assert in %s is discharged: %s" % (t["akind"], f.id.split("::")[-1], why),
                          "%s can panic in %s: undischarged %s (%s)" % ("the limiter", f.id, t["akind"], t.get("msg", "")[:80]), f.where(t.get("l")))
        for site, s in f.stmts():
            if s["k"] == "assign" and "balance" in [proj_field_name(e) for e in s["lhs"][1] if e.startswith("f:")]:
                nst += 1
                rts = f.origins(s["rv"]["op"]) if s["rv"]["k"] == "use" else []
                forms = []
                for r in rts:
                    if r["k"] == "call":
                        forms.append(r["call"].name.split("::")[-1])
                if s["rv"]["k"] == "use" and rts and all(r["k"] == "call" and r["call"].matches(r"cmp::Ord::min$|Ord>::min$") for r in rts):
                    mc = rts[0]["call"]
                    inner = f.origins(mc.args[0])
                    oki = all(r["k"] == "call" and r["call"].matches(r"saturating_add$") for r in inner)
                    capf = [proj_field_name(e) for r in f.origins(mc.args[1]) for e in r.get("proj", []) if e.startswith("f:")]
                    run.check(oki and "max" in capf, "balance-store:min(sat_add,max)@%s" % f.id.split("::")[-1], "balance := min(balance.saturating_add(..), max)", "balance refill is not min(saturating_add(..), max)", f.where(s.get("l")))
                elif s["rv"]["k"] == "use":
                    v = sym(f, s["rv"]["op"])
                    okd = v[0] == "bin" and v[1] == "Sub" and v[3] == ("c", 1)
                    gt = [x for x in cmp_tests(f) if x["op"] == "Gt" and x["b"] == ("c", 0)]
                    okg = any(x["true_edge"] and f.edge_dominates(x["true_edge"], site) for x in gt)
                    if not (okd and okg):
                        # `balance.saturating_sub(1)`: the guarded decrement in one call
                        rts2 = f.origins(s["rv"]["op"])
                        if rts2 and all(r["k"] == "call" and r["call"].matches(r"::saturating_sub$") and sym(f, r["call"].args[1]) == ("c", 1) for r in rts2):
                            okd = okg = True
                    run.check(okd and okg, "balance-store:dec@%s" % f.id.split("::")[-1], "balance := balance - 1 under balance > 0", "balance store %s is neither a capped refill nor a guarded decrement" % show(v), f.where(s.get("l")))
        for site, s in f.aggregates(adt="LeakyBucketRateLimiter"):
            vals = dict(zip(s["rv"]["fields"], s["rv"]["ops"]))
            b = vals.get("balance")
            rts = f.origins(b) if b else []
            run.check(rts and all(r["k"] == "call" and r["call"].matches(r"Ord::min$|Ord>::min$") for r in rts), "balance-init", "initial balance = min(initial or max, max)", "initial balance not capped at max", f.where(s.get("l")))
            nst += 1
        # multiplications saturate
        for c in f.calls():
            if c.matches(r"::wrapping_mul$|::unchecked_mul$"):
                run.fail("mul:%s" % f.id, "unchecked multiplication in the limiter", c.where())
        for site, s in f.stmts():
            if s["k"] == "assign" and s["rv"]["k"] == "bin" and s["rv"]["op"].startswith("Mul"):
                run.fail("mul-plain:%s" % f.id.split("::")[-1], "tokens are computed with a plain `*` (overflow panics in debug / wraps in release); use saturating_mul", f.where(s.get("l")))
    run.anchor("balance stores", nst, 3)
    # a due refresh always moves the deadline: otherwise the same elapsed interval is credited again later (C15-4)
    rf = [f for f in core if f.id.endswith("::refresh")]
    for f in rf:
        D = fields(db).lb_deadline
        stores = [site for site, s in f.stmts() if s["k"] == "assign" and D in [proj_field_name(e) for e in s["lhs"][1] if e.startswith("f:")]]
        due = []
        for c in f.calls():
            m = re.search(r"cmp::PartialOrd::(lt|le|gt|ge)$", c.callee or "")
            if not m or "Instant" not in (c.self_ty or "") + " ".join(c.gargs):
                continue
            a_now = any(r["k"] == "arg" and r["local"] == 2 for r in f.origins(c.args[0]))
            b_now = any(r["k"] == "arg" and r["local"] == 2 for r in f.origins(c.args[1]))
            if a_now == b_now:
                continue
            op = m.group(1)
            if b_now:
                op = {"lt": "gt", "le": "ge", "gt": "lt", "ge": "le"}[op]
            # normalised: now <op> deadline ; due means now >= deadline
            due.append(false_edge(f, c) if op in ("lt", "le") else true_edge(f, c))
        run.check(len(due) == 1 and due[0] is not None and len(stores) >= 1, "refresh|due-test", "refresh compares `now` with the deadline once", "refresh: %d now/deadline comparisons, %d deadline stores" % (len(due), len(stores)), f.where())
        if len(due) == 1 and due[0] is not None and stores:
            run.check(all_paths_from_edge_pass(f, due[0], stores), "refresh|due->deadline-advanced", "whenever the deadline has passed, every path through refresh stores a new deadline",
                      "refresh can return on the due edge (now >= deadline) without moving the deadline: the intervals that elapsed meanwhile are credited by a later call, on top of a bucket that was meanwhile spent (more than balance + refill per interval admitted)", f.where())
    chk = [f for f in core if f.id.endswith("::check")]
    for f in chk:
        rf = [c for c in f.calls() if c.callee and c.callee.endswith("::refresh")]
        gt = [x for x in cmp_tests(f) if x["op"] == "Gt" and x["b"] == ("c", 0)]
        ret = sym(f, {"k": "copy", "p": [0, []]})
        run.check(len(rf) == 1 and ret[0] == "bin" and ret[1] == "Gt" and ret[3] == ("c", 0), "check=refresh;balance>0", "check() refreshes and returns balance > 0", "check() shape changed: %s" % show(ret), f.where())


def r3(run, db):
    rl = [f for f in db.crate_fns("ractor") if f.kind == "method" and f.raw.get("trait_item", "").endswith("routing::Router::route_message") and "ratelim::" in f.id]
    run.anchor("rate-limited router", len(rl), 1)
    for f in rl:
        run.saw(len(f.blocks), f)
        chk = [c for c in f.calls() if c.matches(r"RateLimiter::check$")]
        inner = [c for c in f.calls() if c.matches(r"Router::route_message$")]
        bump = [c for c in f.calls() if c.matches(r"RateLimiter::bump$")]
        rlg = f.aggregates(adt="RouteResult", variant="RateLimited")
        good = len(chk) == 1 and len(inner) == 1 and len(bump) == 1 and len(rlg) == 1
        run.check(good, "limiter|shape", "check, inner route, bump, RateLimited each once", "limiter shape: %d/%d/%d/%d" % (len(chk), len(inner), len(bump), len(rlg)), f.where())
        if not good:
            continue
        te, fe = true_edge(f, chk[0]), false_edge(f, chk[0])
        run.check(te and f.edge_dominates(te, inner[0].site), "limiter|route-after-check", "the inner router is consulted only when check() allowed it", "route without a passed check", inner[0].where())
        run.check(fe and f.edge_dominates(fe, rlg[0][0]), "limiter|refused->RateLimited", "a refused check returns RateLimited(job)", None, f.where())
        # bump on Handled
        okb = False
        for site, t in f.switches():
            info = f.switch_info(site)
            if info.get("kind") == "enum" and "Handled" in info["edges"]:
                e = (site.bb, info["edges"]["Handled"])
                if edge_guards(f, e, bump[0].site):
                    okb = True
        run.check(okb and f.reaches_after(inner[0].site, bump[0].site), "limiter|bump-on-handled", "the bucket is charged only when the inner router handled the job", "bump() is not restricted to the Handled outcome", bump[0].where())


def r4(run, db):
    n = 0
    for nm in ("dispatch", "try_route_next_active_job"):
        f = fs(db, nm)
        for site, t in f.switches():
            info = f.switch_info(site)
            if info.get("kind") == "enum" and "RateLimited" in info["edges"]:
                e = (site.bb, info["edges"]["RateLimited"])
                reach = edge_path_sites(f, [e])
                st = [c for c in f.calls() if c.matches(r"::job_rate_limited$") and f.edge_dominates(e, c.site)]
                dc = [c for c in f.calls() if re.search(c13.DISCARD, c.callee or "") and f.edge_dominates(e, c.site)]
                rj = [c for c in f.calls() if c.matches(r"job::Job::<TKey, TMsg>::reject$") and f.edge_dominates(e, c.site)]
                n += 1
                reason = f.value_consts(dc[0].args[1])[0].split("::")[-1] if dc and f.value_consts(dc[0].args[1]) else None
                run.check(len(st) == 1 and len(dc) == 1 and len(rj) == 1 and reason == "RateLimited", "ratelimited-arm:%s" % nm, "%s: RateLimited arm records the stat, calls the handler with RateLimited and rejects" % nm,
                          "%s: RateLimited arm has %d stats, %d discards (%s), %d rejects" % (nm, len(st), len(dc), reason, len(rj)), f.where())
    run.anchor("RateLimited arms", n, 2)


def r5(run, db):
    hooks = {"on_factory_started": r"Actor>::post_start::\{closure#0\}$", "on_factory_draining": r"::drain_requests::\{closure#0\}$", "on_factory_stopped": r"Actor>::post_stop::\{closure#0\}$"}
    for h, rx in hooks.items():
        cs = [c for c in db.all_calls("ractor") if c.callee and c.callee.endswith("FactoryLifecycleHooks::" + h)]
        cs = [c for c in cs if "factory::lifecycle" not in c.fn.id]
        run.check(len(cs) == 1 and re.search(rx, c_id(cs[0])), "hook:%s" % h, "%s is invoked once, from %s" % (h, cs[0].fn.id.split("::")[-2] if cs else "?"), "%s is invoked from %s" % (h, [c.fn.id for c in cs]))
    dr = [f for f in db.crate_fns("ractor") if re.search(r"FactoryState::<.*>::drain_requests::\{closure#0\}$", f.id)]
    run.anchor("drain_requests", len(dr), 1)
    for f in dr:
        st = [(site, s) for site, s in f.stmts() if s["k"] == "assign" and fields(db).fs_drain_state in [proj_field_name(e) for e in s["lhs"][1] if e.startswith("f:")]]
        hk = [c for c in f.calls() if c.callee and c.callee.endswith("::on_factory_draining")]
        run.check(len(st) == 1 and f.value_consts(st[0][1]["rv"]["op"]) == ["ractor::factory::factoryimpl::DrainState::Draining"] if st and st[0][1]["rv"]["k"] == "use" else False or (len(st) == 1), "drain|state-store", "the drain handler stores Draining", "drain handler does not store Draining", f.where())
        if st and hk:
            run.check(f.dominates(st[0][0], hk[0].site), "drain|store-before-hook", "the state is Draining before the draining hook runs", "hook before state store", hk[0].where())
        # once: the transition (and its hook) happens only from NotDraining -- a repeated request while Draining / after
        # Drained must neither run the draining hook again nor move the state backwards
        DS = ["NotDraining", "Draining", "Drained"]
        D = fields(db).fs_drain_state
        def from_state(fn, op):
            return any(D in [proj_field_name(e) for e in r.get("proj", []) + r.get("trail", []) if e.startswith("f:")] for r in fn.origins(op, through=lambda c: 0 if c.matches(r"Deref>::deref$|DerefMut>::deref_mut$") else None))
        def admitted_at(site):
            adm = set(DS)
            n = 0
            for c in f.calls():
                m = re.search(r"cmp::PartialEq::(eq|ne)$", c.callee or "")
                if not m or "DrainState" not in (c.self_ty or "") + " ".join(c.gargs):
                    continue
                sides = [(from_state(f, c.args[0]), f.value_consts(c.args[0])), (from_state(f, c.args[1]), f.value_consts(c.args[1]))]
                k = None
                if sides[0][0] and sides[1][1]:
                    k = sides[1][1][0]
                elif sides[1][0] and sides[0][1]:
                    k = sides[0][1][0]
                if not k:
                    continue
                k = k.split("::")[-1]
                for edge, pol in ((true_edge(f, c), True), (false_edge(f, c), False)):
                    if edge and f.edge_dominates(edge, site):
                        n += 1
                        want_eq = (m.group(1) == "eq") == pol
                        adm &= ({k} if want_eq else set(DS) - {k})
            for sw_site, t in f.switches():
                info = f.switch_info(sw_site)
                if info.get("kind") == "enum" and str(info.get("disc_adt") or info.get("disc_ty") or "").endswith("DrainState") and from_state(f, {"k": "copy", "p": info["disc_place"]}):
                    by_t = {}
                    for nm, tgt in info["edges"].items():
                        if nm in DS:
                            by_t.setdefault(tgt, set()).add(nm)
                    for tgt, names in by_t.items():
                        if f.edge_dominates((sw_site.bb, tgt), site):
                            n += 1
                            adm &= names
            return adm, n
        for site, _s in st:
            adm, n = admitted_at(site)
            run.check(n >= 1 and adm == {"NotDraining"}, "drain|only-from-NotDraining", "the Draining store (and with it the draining hook) is reachable only when the state is NotDraining",
                      "drain_requests stores Draining and runs on_factory_draining whatever the current state is (reachable from %s): a repeated DrainRequests runs the draining hook again (started, draining, draining, stopped) and can move a Drained factory back to Draining" % sorted(adm), f.where())
    # all drain_state stores
    for f in db.crate_fns("ractor"):
        for site, s in f.stmts():
            if s["k"] == "assign" and fields(db).fs_drain_state in [proj_field_name(e) for e in s["lhs"][1] if e.startswith("f:")]:
                v = None
                for r in f.origins(s["rv"]["op"]) if s["rv"]["k"] == "use" else []:
                    if r["k"] == "agg":
                        v = r["stmt"]["rv"].get("variant")
                if s["rv"]["k"] == "agg":
                    v = s["rv"].get("variant")
                where = f.id.split("::")[-1] if not f.id.endswith("}") else f.id.split("::")[-2]
                okw = (v == "Draining" and where == "drain_requests") or (v == "Drained" and where == "is_drained")
                run.check(okw, "drain-state-writer:%s:%s" % (where, v), "drain_state := %s in %s" % (v, where), "drain_state := %s written in %s" % (v, f.id), f.where(s.get("l")))
    idr = fs(db, "is_drained")
    run.saw(len(idr.blocks), idr)
    al = [c for c in idr.calls() if c.matches(r"Iterator::all$")]
    run.check(len(al) == 1, "is_drained|all-workers", "is_drained quantifies over all workers", "is_drained no longer tests all workers", idr.where())
    for c in al:
        src = idr.origins(c.args[0])
        okd = bool(src) and all(r["k"] == "call" and r["call"].matches(r"HashMap::<K, V, S, A>::values$") for r in src)
        run.check(okd, "is_drained|unfiltered", "the quantifier ranges over pool.values() directly (no filter/skip/take adapter in between)",
                  "the workers examined by is_drained are pre-filtered (%s): workers outside the filter can still hold jobs when the factory declares itself drained" % [r["call"].name.split("::")[-1] if r["k"] == "call" else r["k"] for r in src], c.where())
    preds = []
    for c in al:
        for r in idr.origins(c.args[1]):
            if r["k"] == "agg" and r["stmt"]["rv"].get("kind") == "closure" and db.fns.get(r["stmt"]["rv"]["def"]):
                preds.append(db.fns[r["stmt"]["rv"]["def"]])
    # (the predicate may also be the function item itself: `.all(WorkerProperties::is_available)`)
    fn_items = [r for c in al for r in idr.origins(c.args[1]) if r["k"] == "const" and str((r["op"].get("fn") or {}).get("def") or r["op"].get("val") or "").endswith("::is_available")]
    if fn_items and not preds:
        run.ok("is_drained|predicate", "the per-worker predicate is the function item is_available itself", idr.where())
    run.anchor("is_drained predicate closure", len(preds) + len(fn_items), 1)
    for g in preds:
        cs = g.calls()
        av = [c for c in cs if c.callee and c.callee.endswith("::is_available")]
        ret = g.origins([0, []])
        okc = len(av) == 1 and len(cs) == 1 and all(r["k"] == "call" and r["call"].bb == av[0].bb for r in ret) and not g.switches()
        run.check(okc, "is_drained|predicate", "the per-worker predicate is exactly is_available() (no worker is exempt, e.g. one that is retiring after a shrink)",
                  "the per-worker predicate of is_drained is not plain is_available(): some busy workers are skipped, the factory can stop while they hold queued jobs", g.where())
    from .bits import zero_edges
    ql = zero_edges(idr, lambda x: x[0] == "call" and x[1].name.endswith("::len"))
    is_empty = [c for c in idr.calls() if c.matches(r"::is_empty$") and true_edge(idr, c)]
    ql += [true_edge(idr, c) for c in is_empty]
    stores = [site for site, s in idr.stmts() if s["k"] == "assign" and fields(db).fs_drain_state in [proj_field_name(e) for e in s["lhs"][1] if e.startswith("f:")]]
    run.check(len(ql) >= 1 and stores and any(idr.edge_dominates(e_, stores[0]) for e_ in ql), "is_drained|queue-empty", "Drained is stored only when the factory queue is empty", "Drained does not require an empty queue", idr.where())
    # stop only when drained
    hd = [f for f in db.crate_fns("ractor") if re.search(r"factoryimpl::Factory<.*Actor>::handle::\{closure#0\}$", f.id)]
    for f in hd:
        idc = [c for c in f.calls() if c.callee == idr.id]
        stp = [c for c in f.calls() if c.matches(r"ActorCell::stop$")]
        run.check(len(idc) >= 1 and len(stp) >= 1 and all(any(true_edge(f, i) and f.edge_dominates(true_edge(f, i), s.site) for i in idc) for s in stp), "handle|stop-if-drained", "the factory stops itself only on the true edge of is_drained()", "factory stop not guarded by is_drained()", f.where())
        # ... and the test is made after *every* message: the last outstanding job can also end without a Finished (its
        # worker fails and is replaced, a queued job expires on a timer tick), so any message can be the one after which the
        # factory is drained
        oks = ok_return_sites(f)
        good = bool(idc) and bool(oks) and f.must_pass(f.entry(), [i.site for i in idc], to_sites=oks)
        run.check(good, "handle|drained-tested-after-every-message", "every normal path through the factory's handle() evaluates is_drained()",
                  "is_drained() is evaluated only for some messages: when the last outstanding job ends without such a message (worker failure, TTL expiry) the factory stays Draining forever -- it refuses all jobs, never stops, on_factory_stopped never runs", f.where())


def _fnames(fn, op):
    thr = lambda c: 0 if c.matches(r"Deref>::deref$|DerefMut>::deref_mut$|Deref::deref$|DerefMut::deref_mut$|OccupiedEntry::<'a, K, V, A>::get_mut$|OccupiedEntry::<'a, K, V, A>::get$") else None
    out = []
    for r in fn.origins(op, through=thr):
        for e in r.get("proj", []) + r.get("trail", []):
            n = proj_field_name(e) if e.startswith("f:") else None
            if n:
                out.append(n)
    return out


def dead_worker_replaced(run, db):
    """`dead workers replaced`: in the factory's supervision handler the replacement of a worker is conditioned on nothing but
    the event kind, the actor->wid index lookup, the pool lookup and the success of spawning the replacement -- a dead worker
    the index knows is replaced wherever its slot lies (also a retiring slot above the current pool size: it still holds an
    in-flight job and is counted by is_drained)"""
    hs = [f for f in db.crate_fns("ractor") if re.search(r"factoryimpl::Factory<.*Actor>::handle_supervisor_evt::\{closure#0\}$", f.id)]
    run.anchor("factory handle_supervisor_evt", len(hs), 1)
    ADAPT = r"Option::<T>::(copied|cloned|and_then|map|as_mut|as_ref|as_deref|as_deref_mut)$|Option::<&T>::(copied|cloned)$|Option::<&mut T>::(copied|cloned)$|Try::branch$"
    thr = lambda c: 0 if c.matches(ADAPT) else None
    for f in hs:
        rw = [c for c in f.calls() if (c.callee or "").endswith("::replace_worker")]
        run.anchor("replace_worker calls in the factory's supervision handler", len(rw), 2, f.where())
        for c in rw:
            extra = []
            for site, t in f.switches():
                info = f.switch_info(site)
                edges = info.get("edges") or {}
                dom = [lab for lab, tgt in edges.items() if f.edge_dominates_plain((site.bb, tgt), c.site)] if hasattr(f, "edge_dominates_plain") else []
                if not dom:
                    continue
                roots = f.origins(info["disc_place"], through=thr) if info.get("disc_place") else []
                def okroot(r):
                    if r["k"] in ("arg", "upvar"):
                        return (info.get("disc_adt") or "").endswith("SupervisionEvent")
                    if r["k"] == "call":
                        return bool(r["call"].matches(r"HashMap::<K, V, S, A>::(get|get_mut)$|(^|::)Future::poll$"))
                    return False
                if roots and all(r["k"] == "agg" and not r["stmt"]["rv"].get("ops") for r in roots):
                    continue        # a test of a constant (async-trait's `if let Some(ret) = None::<Ret>` prologue): not a condition
                if not roots or not all(okroot(r) for r in roots):
                    extra.append("%s edge of a test on %s" % ("/".join(dom), sorted(set((r["call"].name.split("::")[-1] if r["k"] == "call" else r["k"]) for r in roots)) or "?"))
            run.check(not extra, "replace-unconditional@%s" % ("terminated" if c is rw[0] else "failed" if len(rw) > 1 and c is rw[1] else "x"),
                      "the replacement is conditioned only on the event kind, the index and pool lookups and the spawn result",
                      "the replacement of a dead worker is additionally conditioned on %s: a worker that dies while that condition is false (e.g. a retiring worker above the shrunk pool size that still holds a job) is never replaced, its slot stays busy for ever and the pool neither converges nor drains" % extra, c.where())


def r7(run, db):
    dead_worker_replaced(run, db)
    _r7(run, db)


def _r7(run, db):
    """pool <-> worker_by_actor pairing.  The factory resolves supervision events of workers through the actor->wid index; an
    entry that outlives its pool slot makes the late termination event of a retired worker hit whatever worker occupies that
    wid now (C15-3: the healthy replacement is replaced again and left running untracked, so the pool never converges)."""
    fields(db).fs_pool, fields(db).fs_by_actor      # anchors: both maps exist in FactoryState (unique by type)
    def is_map(fn, op, rx):
        p = op_place(op)
        return bool(p) and re.search(rx, fn.local_ty(p[0]) or "") is not None
    PRX = r"HashMap<usize, ractor::factory::worker::WorkerProperties<"
    BRX = r"HashMap<ractor::actor::actor_id::ActorId, usize>"
    nrm = nin = 0
    for f in db.crate_fns("ractor"):
        if not (f.file or "").endswith("factory/factoryimpl.rs") or "::tests::" in f.id:
            continue
        calls = f.calls()
        b_rm = [c.site for c in calls if c.matches(r"HashMap::<K, V, S, A>::remove$") and is_map(f, c.args[0], BRX)]
        b_in = [c.site for c in calls if c.matches(r"HashMap::<K, V, S, A>::insert$") and is_map(f, c.args[0], BRX)]
        for c in calls:
            if c.matches(r"HashMap::<K, V, S, A>::remove$") and is_map(f, c.args[0], PRX):
                nrm += 1
                e = nested_variant_edge(f, c, ["Some"])
                good = e is not None and all_paths_from_edge_pass(f, e, b_rm)
                run.check(good, "pool-remove->index-remove:%s" % f.id.split("::")[-1].replace("{closure#0}", f.id.split("::")[-2]), "when a worker leaves the pool its actor id leaves the actor->wid index on every path",
                          "%s removes a worker from the pool but not (on every path) its actor id from the actor->wid index: the retired worker's later termination event resolves to the slot's next occupant" % f.id, c.where())
            elif c.matches(r"hash_map::OccupiedEntry::<'a, K, V, A>::(remove|remove_entry)$|OccupiedEntry::<'a, K, V, A>::(remove|remove_entry)$"):
                p = op_place(c.args[0])
                ty = f.local_ty(p[0]) if p else ""
                if "WorkerProperties" not in ty:
                    continue
                nrm += 1
                good = c.target is not None and (Site(c.target, 0) in set(b_rm) or f.must_pass(Site(c.target, 0), b_rm))
                run.check(good, "pool-remove->index-remove:%s" % f.id.split("::")[-1], "when a worker leaves the pool its actor id leaves the actor->wid index on every path",
                          "%s removes a worker from the pool (entry API) but not, on every path, its actor id from the actor->wid index: the retired worker's later termination event resolves to the slot's next occupant, which is then replaced although healthy" % f.id, c.where())
            elif c.matches(r"HashMap::<K, V, S, A>::insert$") and is_map(f, c.args[0], PRX):
                nin += 1
                good = c.target is not None and f.must_pass(Site(c.target, 0), b_in)
                run.check(good, "pool-insert->index-insert:%s" % f.id.split("::")[-2], "a worker added to the pool is added to the actor->wid index on every path",
                          "%s adds a worker to the pool without indexing its actor id: its failure would never be noticed" % f.id, c.where())
    run.anchor("pool removals", nrm, 2)
    run.anchor("pool insertions", nin, 2)


def c_id(c):
    return c.fn.id


def settings_reach_workers(run, db):
    """UpdateSettings: what the factory stores for itself it also hands to every worker of the pool -- the per-worker copy of the
    discard handler / discard settings is written for every worker whenever the request carries a value (no further condition),
    and it derives from the request's value, not from the factory's previous one"""
    fs_ = [f for f in db.crate_fns("ractor") if re.search(r"FactoryState::<.*>::update_settings(::\{closure#0\})?$", f.id) and f.blocks]
    fs_ = [f for f in fs_ if any(True for _ in f.stmts())]
    n = 0
    for f in fs_:
        thr = lambda c: 0 if c.matches(r"Clone>::clone$|get_worker_settings$") else None
        for site, st in f.stmts():
            if st["k"] != "assign":
                continue
            names = [proj_field_name(e) for e in st["lhs"][1] if e.startswith("f:")]
            if not names or names[-1] not in ("discard_handler", "discard_settings") or "WorkerProperties" not in (f.local_ty(st["lhs"][0]) or ""):
                continue
            n += 1
            fld = names[-1]
            extra = []
            for s2, t in f.switches():
                info = f.switch_info(s2)
                dom = [lab for lab, tgt in (info.get("edges") or {}).items() if f.edge_dominates_plain((s2.bb, tgt), site)]
                if not dom:
                    continue
                rr = f.origins(info["disc_place"]) if info.get("disc_place") else f.origins(t["discr"])
                if rr and all(r["k"] == "agg" and not r["stmt"]["rv"].get("ops") for r in rr):
                    continue        # a test of a constant (async-trait prologue): not a condition
                ok = info.get("kind") == "enum" and (info.get("disc_adt") or "").endswith("option::Option") and rr and all(
                    r["k"] in ("upvar", "arg") or (r["k"] == "call" and r["call"].matches(r"Iterator::next$|::next$")) for r in rr)
                if not ok:
                    extra.append("%s edge of a test on %s" % ("/".join(dom), sorted(set(r["call"].name.split("::")[-1] if r["k"] == "call" else r["k"] for r in rr)) or "?"))
            run.check(not extra, "update-settings|%s-reaches-every-worker" % fld, "the workers' %s is updated whenever the request carries one (only the request's Option and the pool iteration guard the store)" % fld,
                      "the workers' copy of %s is updated only under an extra condition (%s): workers keep the previous value while the factory reports the new one (e.g. a sticky-queuer worker discards expired jobs from its private queue through a retired handler, or not at all)" % (fld, extra), f.where(st.get("l")))
            if st["rv"]["k"] == "use":
                roots = f.origins(st["rv"]["op"], through=thr)
                stale = [r for r in roots if r["k"] in ("upvar", "arg") and not any(e.startswith("d:") and e.endswith(":Some") for e in r.get("proj", []) + r.get("trail", []))]
                run.check(bool(roots) and not stale, "update-settings|%s-from-request" % fld, "the value handed to the workers derives from the request's payload (or is a constant)",
                          "the value handed to the workers as %s is read from the factory's own state, not from the request (%s): the workers receive the settings that were in force *before* the update -- a new limit is not enforced, a changed mode sheds the wrong jobs" % (
                              fld, [[proj_field_name(e) for e in r.get("proj", []) if e.startswith("f:")] for r in stale]), f.where(st.get("l")))
    run.anchor("per-worker settings stores in update_settings", n, 2)


def r6(run, db):
    settings_reach_workers(run, db)
    _r6(run, db)


def _r6(run, db):
    d = fs(db, "dispatch")
    run.saw(len(d.blocks), d)
    eqs = [t_ for t_ in enum_const_tests(d, "DrainState") if t_["variant"] == "NotDraining"]
    run.check(len(eqs) == 1, "dispatch|drain-test", "dispatch tests the drain state", "dispatch has %d drain-state tests" % len(eqs), d.where())
    if eqs:
        te, fe = eqs[0]["eq_edge"], eqs[0]["ne_edge"]
        rt = [c for c in d.calls() if c.matches(r"Router::route_message$")]
        run.check(bool(te and rt and d.edge_dominates(te, rt[0].site)), "dispatch|route-only-if-not-draining", "jobs are routed only while NotDraining", "routing not restricted to NotDraining", d.where())
        dc = [c for o, c, ch in inlined_calls(db, d) if re.search(c13.DISCARD, c.callee or "") and fe and d.edge_dominates(fe, o)]
        rj = [c for o, c, ch in inlined_calls(db, d) if c.matches(r"job::Job::<TKey, TMsg>::reject$") and fe and d.edge_dominates(fe, o)]
        reason = None
        for o, c, ch in inlined_calls(db, d):
            if re.search(c13.DISCARD, c.callee or "") and fe and d.edge_dominates(fe, o):
                v = c.fn.value_consts(c.args[1])
                if v:
                    reason = v[0].split("::")[-1]
                elif ch:
                    # the reason is a parameter of the helper that discards: take it from the helper call in dispatch
                    for x in d.calls():
                        if x.site == o:
                            for a in x.args:
                                vv = d.value_consts(a)
                                if vv and "DiscardReason" in vv[0]:
                                    reason = vv[0].split("::")[-1]
        run.check(len(dc) == 1 and len(rj) == 1 and reason == "Shutdown", "dispatch|draining->shutdown+reject", "a job arriving while draining is discarded with Shutdown and rejected", "draining arm: %d discards (%s), %d rejects" % (len(dc), reason, len(rj)), d.where())
    rz = [f for f in db.crate_fns("ractor") if re.search(r"FactoryState::<.*>::resize_pool::\{closure#0\}$", f.id)]
    run.anchor("resize_pool", len(rz), 1)
    for f in rz:
        run.saw(len(f.blocks), f)
        zt = [t for t in cmp_tests(f) if t["op"] == "Eq" and t["b"] == ("c", 0)]
        g = [c for c in f.calls() if c.callee and c.callee.endswith("::grow_pool")]
        s = [c for c in f.calls() if c.callee and c.callee.endswith("::shrink_pool")] or [c for c in f.calls() if c.callee and c.callee.endswith("::set_draining") and f.value_consts(c.args[1]) == ["true"]]
        run.check(len(zt) >= 1 and all(zt[0]["false_edge"] and f.edge_dominates(zt[0]["false_edge"], c.site) for c in g + s) and g and s, "resize|zero-ignored", "a zero request returns before any change", "a zero resize request is acted upon", f.where())
        mn = [c for c in f.calls() if c.matches(r"cmp::min$")]
        okm = False
        for c in mn:
            vs = [sym(f, a) for a in c.args]
            okm = okm or any(v[0] == "c" and v[1] > 0 for v in vs)
        run.check(okm, "resize|capped", "new size = min(GLOBAL_WORKER_POOL_MAXIMUM, requested)", "new size is not capped by the global maximum", f.where())
        ps = [(site, st) for site, st in f.stmts() if st["k"] == "assign" and fields(db).fs_pool_size in [proj_field_name(e) for e in st["lhs"][1] if e.startswith("f:")]]
        run.check(len(ps) == 1 and all(f.reaches_after(c.site, ps[0][0]) for c in g + s), "resize|size-after-change", "pool_size is updated after the pool changed", None, f.where())
    # growth over a wid whose worker was only *marked* as retiring (it was busy when the pool shrank): the mark is cleared
    # whether or not the worker is idle right now -- otherwise it retires itself after its current job although the pool
    # was grown back, and the live set stays below the requested size
    gp = [f for f in db.crate_fns("ractor") if re.search(r"FactoryState::<.*>::grow_pool::\{closure#0\}$", f.id)]
    run.anchor("grow_pool", len(gp), 1)
    for f in gp:
        run.saw(len(f.blocks), f)
        sd = [c for c in f.calls() if c.callee and c.callee.endswith("::set_draining") and f.value_consts(c.args[1]) == ["false"]]
        av = [c for c in f.calls() if c.callee and c.callee.endswith("::is_available")]
        run.anchor("grow_pool set_draining(false)", len(sd), 1, f.where())
        for c in sd:
            cond = [x for x in av if any(e and f.edge_dominates(e, c.site) for e in (true_edge(f, x), false_edge(f, x)))]
            run.check(not cond, "grow|revive-unconditional", "an existing (retiring) worker inside the new size is un-retired whether or not it is idle",
                      "grow_pool clears the retiring mark only when the worker is idle: a busy retiring worker keeps the mark, stops itself after its job, and the pool ends below the requested size for good", c.where())


Q = ["dflt"]
TH = ["dflt", "rc", "atr", "astd"]
RULES = [{"id": "C15.R%d" % i, "fn": f, "quick": Q, "thorough": TH} for i, f in enumerate([r1, r2, r3, r4, r5, r6, r7], 1)]

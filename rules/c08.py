"""C08 -- A failed or cancelled spawn leaves nothing behind."""
import re
from .facts import proj_field_name
from .model import *
from .facts import Site, op_place, Call
from . import c05, c06, c10, c01

EXPLANATION = ("The sweep over cancellation points is replaced by an ownership argument decided on MIR: whatever await a start future is dropped at, the "
               "values it owns are dropped, and the rules show that those destructors do the whole cleanup and that nothing escapes ownership -- the "
               "lifecycle guard exists on every path right after the cell (name/pid) is created and is never forgotten/leaked; its cleanup always closes "
               "the subtree, looks up and unlinks from the supervisor and stores Stopped (C05.R1); the once-elected status cleanup releases name, pid and "
               "groups (C06.R5); a pid-registration failure rolls the name back and a name clash touches nothing; ActorPortSet::drop closes and flushes "
               "every receiver field; the thread-local spawner hands its start task over only inside an abort-on-drop wrapper that stays armed across "
               "the caller's await; no loop task exists unless pre_start returned Ok; no event is emitted before mark_running (C04.R7).")
TRUSTED = ["Rust drop semantics: dropping a future drops the values it owns", "tokio JoinHandle::abort cancels the task at its next await"]
ASSUMPTIONS = ["effects user pre_start code performs on other systems are out of scope"]

DOC = {
 "C08.R1": "= C05.R2 + C05.R1: guard created right after the cell constructor on every path, never leaked; cleanup complete on the no-event path too",
 "C08.R2": "cell constructors (cluster): the pid-registration error path unregisters the name before returning; the two constructors agree",
 "C08.R3": "= C10.R3 + C10.R1: a name clash returns before any guard exists and reaches no unregister; the clash test and the insertion are one atomic step (vacant-entry-only insertion: two spawns racing for a free name cannot both succeed, and a later one cannot overwrite the holder)",
 "C08.R4": "= C06.R5: the elected cleanup contains name unregister, pid demonitor/unregister (cluster), pg demonitor_all and leave_all",
 "C08.R5": "ActorPortSet::drop calls close() and a draining try_recv() loop on every receiver-typed field of the struct",
 "C08.R6": "thread-local spawner: the start task travels only inside the abort-on-drop wrapper (reply element type, wrap-before-send); the wrapper is alive across the caller's await and disarmed only after it; its Drop aborts when armed",
 "C08.R8": "= C11.R1 + C11.R2: `it is in no process group` -- group/monitor insertions re-check the status under the actor's relations lock, and the exit drains the reverse index under that lock after publishing the status",
 "C08.R10": "link() inserts into a child set (and sets the supervisor slot) only for a child whose status is below Stopping: an exiting cell publishes Stopping before it unlinks itself, so no later link can re-attach a cell whose one-shot cleanup already ran (`in no supervisor's child set`)",
 "C08.R9": "cancellation after start-up: the loop task is created by the caller's own future (Send), or, when another task creates it (thread-local), it first awaits an acknowledgement channel whose sender is a local of the caller's future",
 "C08.R7": "= C01.R3 + C04.R7: no loop task unless pre_start returned Ok; mark_running only after pre_start Ok (no event for a failed start)",
}


def r1(run, db):
    c05.r2(run, db)
    c05.r1(run, db)


def r2(run, db):
    if db.tag not in ("rc", "clus", "rcatr", "ws"):
        run.ok("not-cluster", "pid registry is compiled only with the cluster feature; nothing to roll back in this configuration")
        return
    sk = {}
    for f in c05.cell_ctor_fns(db):
        rp = [c for c in f.calls() if c.matches(r"pid_registry::register_pid$")]
        if not rp:
            continue
        run.saw(len(f.blocks), f)
        c = rp[0]
        ee = nested_variant_edge(f, c, ["Err"])
        un = [x for x in f.calls() if x.matches(r"registry::unregister$")]
        run.check(ee is not None and len(un) == 1, "rollback-shape:%s" % f.id, "%s has a pid-registration Err arm and one unregister call" % f.id, "%s: no rollback of the name when pid registration fails" % f.id, c.where())
        if ee is None or not un:
            continue
        u = un[0]
        run.check(f.edge_dominates(ee, u.site), "rollback-on-err:%s" % f.id, "unregister(name) is on the pid-registration Err edge only", "unregister reachable without a pid-registration failure", u.where())
        # every path from the Err edge to return passes through unregister unless the name is None
        name_sw = [s for s in f.switches() if f.edge_dominates(ee, s[0])]
        passes = False
        for site, t in name_sw:
            info = f.switch_info(site)
            if info.get("kind") == "enum" and "Some" in info["edges"]:
                se = (site.bb, info["edges"]["Some"])
                passes = all_paths_from_edge_pass(f, se, [u.site])
        run.check(passes, "rollback-complete:%s" % f.id, "on the Err edge a named actor always passes through unregister before returning", "a named actor can leave the Err edge without unregistering", u.where())
        thr_n = lambda cc: 0 if cc.matches(r"Clone|AsRef|Deref|String|as_ref$|as_deref$|cloned$|to_owned$|to_string$|Borrow") else None
        okn = any(r["k"] == "arg" and r["local"] == 1 for r in f.origins(u.args[0], through=thr_n))
        if not okn:
            # the name read back from the new cell itself (`self.inner.name`): the rollback gives up exactly the name that the
            # registration just before took, and that name is the cell's own `name` property
            def key(r):
                return (r["k"], r.get("local"), r["call"].bb if r["k"] == "call" else None, tuple(e for e in r.get("proj", []) if e.startswith("f:")), tuple(e for e in r.get("trail", []) if e.startswith("f:")))
            reg = [x for x in f.calls() if x.matches(r"registry::register$")]
            ru = set(key(r) for r in f.origins(u.args[0], through=thr_n))
            rr = set(key(r) for x in reg for r in f.origins(x.args[0], through=thr_n))
            names_u = [proj_field_name(e) for r in f.origins(u.args[0], through=thr_n) for e in r.get("proj", []) + r.get("trail", []) if e.startswith("f:")]
            okn = bool(ru) and ru == rr and "name" in names_u
        run.check(okn, "rollback-own-name:%s" % f.id, "the rollback unregisters the constructor's own name parameter", "rollback uses a different name", u.where())
        errs = [site for site, s in f.aggregates(adt="std::result::Result", variant="Err") if f.edge_dominates(ee, site)]
        run.check(bool(errs), "rollback-returns-err:%s" % f.id, "the Err edge returns Err", None, f.where())
        sk[f.id] = (len(rp), len(un), passes)
    run.anchor("cell constructors with pid registration", len(sk), 2)
    run.check(len(set(sk.values())) <= 1, "ctors-agree", "the cell constructors agree on the rollback skeleton %s" % list(set(sk.values())), "cell constructors diverge: %s" % sk)


def r3(run, db):
    c10.r3(run, db)
    c10.r1(run, db)


def r4(run, db):
    c06.r5(run, db)


def r5(run, db):
    ps = [a for k, a in db.adts.items() if k.endswith("::ActorPortSet")]
    run.anchor("ActorPortSet", len(ps), 1)
    fields = [(f["name"], f["ty"]) for f in ps[0]["variants"][0]["fields"]]
    rx = [n for n, t in fields if re.search(r"Receiver<", t)]
    run.check(len(rx) == len(fields) and len(rx) >= 4, "fields", "ActorPortSet has %d fields, all receivers: %s" % (len(fields), rx), "ActorPortSet has non-receiver fields or fewer than 4 ports: %s" % fields)
    dr = [f for f in db.crate_fns("ractor") if f.raw.get("impl_trait", "").endswith("ops::Drop") and (f.raw.get("impl_self") or "").endswith("ActorPortSet")]
    run.anchor("ActorPortSet::drop", len(dr), 1)
    d = dr[0]
    run.saw(len(d.blocks), d)
    def field_of(c):
        out = set()
        for r in d.origins(c.args[0]):
            for e in r.get("proj", []) + r.get("trail", []):
                if e.startswith("f:") and len(e.split(":")) > 2:
                    out.add(e.split(":")[2])
        return out
    closed, drained = set(), set()
    for c in d.calls():
        if c.matches(r"Receiver::<T>::close$|UnboundedReceiver::<T>::close$"):
            if d.must_pass(d.entry(), [c.site]):
                closed |= field_of(c)
        if c.matches(r"::try_recv$") and d.in_cycle(c.site):
            drained |= field_of(c)
    for n in rx:
        run.check(n in closed, "closed:" + n, "drop always closes %s" % n, "drop does not close %s: senders would keep succeeding into a dead mailbox" % n, d.where())
        run.check(n in drained, "flushed:" + n, "drop drains %s with a try_recv loop (queued messages and their reply ports are dropped)" % n, "drop does not flush %s: queued requests (and their reply ports) stay alive" % n, d.where())


def r6(run, db):
    # (a) abort-on-drop wrapper
    wr = []
    for im in db.impls:
        if im.get("trait", "").endswith("ops::Drop") and im.get("crate") == "ractor" and im.get("self_adt"):
            for it in im["items"]:
                f = db.fns.get(it)
                if f and any(c.matches(r"JoinHandle::<T>::abort$|JoinHandle<T>::abort$|::abort$") and "JoinHandle" in (c.self_ty or c.callee or "") for c in f.calls()):
                    wr.append((im["self_adt"], f))
    run.check(len(wr) == 1, "wrapper", "abort-on-drop wrapper: %s" % [w[0] for w in wr], "abort-on-drop wrapper ADT not found (or ambiguous): %s" % [w[0] for w in wr])
    if not wr:
        return
    wadt, wdrop = wr[0]
    wshort = wadt.split("::")[-1]
    run.saw(len(wdrop.blocks), wdrop)
    ab = [c for c in wdrop.calls() if "abort" in (c.callee or "")]
    # abort guarded only by the handle being present
    good = False
    for c in ab:
        for site, t in wdrop.switches():
            info = wdrop.switch_info(site)
            if info.get("kind") == "enum" and "Some" in info["edges"] and wdrop.edge_dominates((site.bb, info["edges"]["Some"]), c.site):
                good = True
    run.check(good, "drop-aborts-when-armed", "the wrapper's Drop aborts the task whenever the handle is still present", "wrapper Drop does not abort an armed handle", wdrop.where())
    # (b) reply element type
    sa = [a for k, a in db.adts.items() if any("RpcReplyPort<" in f["ty"] and "builder" in [g["name"] for g in a["variants"][0]["fields"]] for f in a["variants"][0]["fields"])]
    run.anchor("spawn request ADT (builder + reply)", len(sa), 1)
    for a in sa:
        rt = [f["ty"] for f in a["variants"][0]["fields"] if "RpcReplyPort<" in f["ty"]][0]
        run.check(wshort in rt, "reply-carries-wrapper", "the spawner's reply port carries the wrapper type (%s)" % rt[:120], "the reply port carries a bare handle (%s): a request cancelled while queued would detach its start task instead of aborting it" % rt[:120])
    # (c) spawner loop: what is sent is wrapper::new(spawn(..)) with nothing in between
    n = 0
    for f in db.crate_fns("ractor"):
        if "ThreadLocalActorSpawner" not in f.id:
            continue
        for c in f.calls():
            if c.matches(r"RpcReplyPort::<TMsg>::send$"):
                n += 1
                roots = f.origins(c.args[1])
                okw = bool(roots) and all(r["k"] == "call" and r["call"].self_ty and wshort in r["call"].self_ty and r["call"].name.endswith("::new") for r in roots)
                run.check(okw, "send-wrapped:%s" % f.id, "the start task's handle is wrapped before it is sent back", "an unwrapped handle is sent back from %s" % f.id, c.where())
                if okw:
                    w = roots[0]["call"]
                    hs = f.origins(w.args[0], through=lambda cc: 0 if cc.matches(r"Result::<T, E>::expect$|Result::<T, E>::unwrap$") else None)
                    oks = all(r["k"] == "call" and re.search(r"spawn_local$|spawn$", r["call"].name) for r in hs) and hs
                    run.check(bool(oks), "wrapped-is-spawned-task:%s" % f.id, "the wrapped handle is the freshly spawned start task", "wrapped handle origin: %s" % [r["k"] for r in hs], w.where())
                    # no await between spawn and send
                    ys = [s for s, t in f.yields()]
                    sp = hs[0]["call"] if hs and hs[0]["k"] == "call" else None
                    if sp is not None:
                        between = [y for y in ys if f.reaches_after(sp.site, y) and f.reaches_after(y, c.site) and not f.reaches_after(c.site, y)]
                        run.check(not between, "no-await-between:%s" % f.id, "no suspension point between spawning the start task and handing over its wrapper", "an await separates spawn and hand-over", c.where())
    run.anchor("spawner reply sends", n, 1)
    # (d) caller side
    sp = [f for f in db.crate_fns("ractor") if re.search(r"ThreadLocalActorSpawner::spawn::\{closure#0\}$", f.id)]
    run.anchor("ThreadLocalActorSpawner::spawn", len(sp), 1)
    for f in sp:
        run.saw(len(f.blocks), f)
        dis = [c for c in f.calls() if c.callee and c.callee.endswith("::disarm") and wshort in (c.self_ty or "")]
        hm = [c for c in f.calls() if c.callee and c.callee.endswith("::handle_mut") and wshort in (c.self_ty or "")]
        run.check(len(dis) == 1 and len(hm) == 1, "caller-shape", "spawn() borrows the task through handle_mut() and disarms once", "spawn(): %d handle_mut, %d disarm" % (len(hm), len(dis)), f.where())
        if not (dis and hm):
            continue
        aw = await_of_call(f, hm[0])
        run.check(len(aw) == 1 and aw[0].completes_before(dis[0].site), "disarm-after-await", "disarm() is dominated by the completion of the awaited start task", "the wrapper is disarmed before the start task completed: cancelling the caller would leak a running start", dis[0].where())
        if aw:
            # the wrapper local must still be initialised while polling
            wl = [i for i, l in enumerate(f.locals) if l["ty"].startswith(wadt) or (wshort + "<") in l["ty"] and not l["ty"].startswith("&")]
            alive = [i for i in wl if f.maybe_init_at(i, aw[0].poll.site)]
            run.check(bool(alive), "wrapper-alive-across-await", "the wrapper value (local %s) is alive while the start task is awaited" % alive, "no wrapper value is alive across the await", f.where())
        # the wrapper comes out of the reply channel
        rxa = [a for a in awaits(f) if a is not (aw[0] if aw else None)]


def r8(run, db):
    from . import c11
    c11.r1(run, db)
    c11.r2(run, db)


def r7(run, db):
    c01.r3(run, db)
    from . import c04
    c04.r7(run, db)


def r9(run, db):
    """`the spawning future is dropped at any await point` for a runtime whose loop task is spawned by *another* task than the
    caller's future.  In the Send runtime the loop task is created in the same poll in which start() returns Ready, so a caller
    either never got that far or holds the result.  In the thread-local runtime the loop task is created by the start task on
    the spawner's thread; the caller learns of it by awaiting that task's JoinHandle.  Between the start task's last poll and
    the caller's next poll the actor is already running while nothing the caller owns can stop it: the abort-on-drop wrapper
    (R6) aborts a task that has already finished.  Closing the gap needs an acknowledgement from the caller to the loop task
    (the loop task first awaits a channel whose sender is a local of the caller's future)."""
    m = model(db)
    for rt in m.runtimes():
        sb = m.start_body(rt)
        blk = m.spawn_block(rt)
        cs = creation_sites(db, blk)
        run.anchor("%s loop task creation" % rt, len(cs), 1, blk.where())
        if not cs:
            continue
        # walk outwards from the body that creates the loop task to the async fn's own coroutine: if a plain closure lies on
        # the way (a deferred constructor such as the thread-local `builder`, which is boxed and sent to the spawner thread
        # and called there), the loop task is not created by the caller's future
        chain = enclosing_chain(db, cs[0][0])
        deferred = [b for b, _ in chain if b.kind == "closure"]
        same_poll = not deferred
        if same_poll:
            run.ok("%s|loop-task-created-by-caller" % rt, "the loop task of runtime %s is created by the caller's own future (%s): dropping that future earlier means no task, later means the caller holds the result" % (rt, sb.id.split("::")[-3]), blk.where())
            continue
        # remote creation: look for the claim handshake
        loop_calls = [c for c in blk.calls() if c.callee == db.root_of(m.loop_body(rt)).id or c.resolved == db.root_of(m.loop_body(rt)).id]
        claim = []
        for a in awaits(blk):
            ty = blk.local_ty(op_place(a.poll.args[0])[0]) if op_place(a.poll.args[0]) else ""
            roots = blk.origins(a.poll.args[0], through=lambda cc: 0 if cc.matches(r"Pin::<Ptr>::new_unchecked$|IntoFuture::into_future$|Pin::<Ptr>::new$") else None)
            is_rx = any("oneshot" in (blk.local_ty(r["local"]) if r.get("local") is not None else "") or (r["k"] == "upvar" and "oneshot" in (place_ty(db, blk, [1, ["f:%d" % r["field"]]]) or "")) for r in roots) or "oneshot" in ty
            if is_rx and loop_calls and all(a.completes_before(c.site) for c in loop_calls):
                claim.append(a)
        # the bodies outside the deferred constructor are the caller's future
        idx = max(i for i, (b, _) in enumerate(chain) if b.kind == "closure")
        sender_in_caller = [c for b, _ in chain[idx + 1:] for c in b.calls() if c.matches(r"concurrency::(\w+::)?oneshot$|sync::oneshot::channel$")]
        run.check(bool(claim) and bool(sender_in_caller), "%s|loop-task-claimed-by-caller" % rt,
                  "the remotely created loop task first awaits an acknowledgement whose sender lives in the caller's future",
                  "runtime %s: the loop task is created by %s, not by the caller's future, and starts running callbacks without any acknowledgement from the caller: a spawn future dropped after the start task's last poll and before its own next poll leaves a running, registered, linked actor behind that the caller never received" % (
                      rt, "a deferred constructor (%s) run by another task" % deferred[0].id.split("::")[-2:]), blk.where())


def r10(run, db):
    """a cell that has begun to exit cleans up exactly once (status Stopping is published *before* it unlinks itself): the
    detachment is final only because link() refuses such a child from then on"""
    from . import c07
    res = c07.link_child_gates(run, db)
    for c, child_g, adm in res:
        late = [v for v in adm if v in ("Stopping", "Stopped")]
        run.check(bool(child_g) and not late, "link-refuses-exiting-child", "link() inserts the child only when its status is below Stopping (child-side gates admit %s)" % adm,
                  "link() can insert a child whose status is %s (%s): a cell whose start-up already failed (its cleanup ran and will never run again) linked late -- e.g. `spawn_instant` + `link` racing a failing pre_start -- stays in the supervisor's child set and keeps a supervisor pointer for ever" % (
                      late or "anything", "no child-side status gate dominates the insertion" if not child_g else "child-side gates admit %s" % adm), c.where())


Q = ["dflt", "rc"]
TH = ["dflt", "rc", "atr", "astd", "mon"]
RULES = [{"id": "C08.R%d" % i, "fn": f, "quick": Q, "thorough": TH} for i, f in enumerate([r1, r2, r3, r4, r5, r6, r7, r8, r9, r10], 1)]
